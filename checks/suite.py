"""Stage 2 of the binding: the repository's own tests as a workload for trace validation.

The gtest sources of /repo (time_zone_lookup_test.cc, time_zone_format_test.cc) are compiled unmodified
against the sanitizer build of the library with -DGOOGLE_CCTZ_VERIF and linked with harness/test_tracer.cc,
which records every public lookup they perform (directly, or through convert / format / parse) in the
event format of ZoneTrace.  The events are re-sharded by zone (each zone's Load line first) and judged by
the specification next to the driver's own panels - so a change that the tests exercise but whose
assertions are too weak to notice is still rejected.  The tests' own pass/fail is NOT a verdict here
(that is the baseline's job); a crash or sanitizer report while they run is.
"""
import collections
import json
import os
import subprocess

import verif as V

TESTS = ["time_zone_lookup_test", "time_zone_format_test"]
GTEST_LIBS = ["-lgmock", "-lgtest", "-lgtest_main"]


def build(variant="asan"):
    libdir = V.build_lib(variant, True)
    tr = os.path.join(V.HARNESS, "test_tracer.cc")
    hk = V._sha([tr, os.path.join(V.HARNESS, "trace.h")] + [os.path.join(V.REPO, "src", t + ".cc") for t in TESTS])
    out = []
    for t in TESTS:
        exe = os.path.join(libdir, "suite-%s-%s" % (t, hk))
        if not os.path.exists(exe):
            cmd = ["clang++", "-std=c++14", "-Wno-everything", "-I" + os.path.join(V.REPO, "include"),
                   "-I" + os.path.join(V.REPO, "src"), "-I" + V.HARNESS, "-pthread"] + V.VARIANTS[variant] + \
                  ["-D" + V.GUARD, os.path.join(V.REPO, "src", t + ".cc"), tr, os.path.join(libdir, "libcctz.a")] + \
                  GTEST_LIBS + ["-o", exe + ".tmp%d" % os.getpid()]
            r = V._run(cmd)
            if r.returncode != 0:
                raise V.BuildError("suite binary %s failed:\n%s" % (t, r.stdout[-1500:]))
            os.rename(exe + ".tmp%d" % os.getpid(), exe)
        out.append((t, exe))
    return out


def record(work, verdict, kinds, cap=0, seed=1):
    """Run the traced test binaries; returns (zones: name -> [load line, event lines...], stats).
    kinds: the event kinds wanted (Break / Make / Next / Prev)."""
    st = {"suite_events": 0, "suite_zones": 0, "suite_tests_run": []}
    zones = collections.OrderedDict()
    try:
        exes = build()
    except V.BuildError as e:
        verdict.infra_failure("suite build failed: %s" % str(e)[-400:])
        return zones, st
    for t, exe in exes:
        out = os.path.join(work, "suite-%s.ndjson" % t)
        env = dict(os.environ)
        env.update({"VT_TRACE_OUT": out, "TZDIR": os.path.join(V.REPO, "testdata", "zoneinfo"),
                    "ASAN_OPTIONS": "detect_leaks=0:abort_on_error=1:handle_sigill=0"})
        env.pop("TZ", None)
        r = subprocess.run(["timeout", "900", exe, "--gtest_brief=1"], env=env, stdout=subprocess.PIPE,
                           stderr=subprocess.PIPE, text=True, errors="replace")
        st["suite_tests_run"].append("%s rc=%d" % (t, r.returncode))
        if r.returncode not in (0, 1):
            # 1 = some gtest assertion failed (the baseline's business); anything else is a crash
            verdict.violation("suite-crash:%s:rc%d" % (t, r.returncode),
                              "the traced %s died (sanitizer report / trap / signal): %s" % (t, r.stderr[-600:]))
        if not os.path.exists(out):
            continue
        V.trim_incomplete(out)
        for ln in open(out):
            ln = ln.rstrip("\n")
            try:
                e = json.loads(ln)
            except ValueError:
                continue
            zn = t.split("_")[2] + ":" + e.pop("zn")
            if e["e"] in ("Load", "LoadFixed"):
                e["name"] = "suite/" + zn
                zones[zn] = [e]
            elif e["e"] in kinds and zn in zones:
                zones[zn].append(e)
    # drop zones without events of the wanted kinds; de-duplicate identical events (tests repeat themselves)
    for zn in list(zones):
        seen, keep = set(), [zones[zn][0]]
        for e in zones[zn][1:]:
            k = json.dumps(e, sort_keys=True)
            if k not in seen:
                seen.add(k)
                keep.append(e)
        if cap and len(keep) - 1 > cap:
            # quick tier: a seed-rotated sample of each zone's events (all of them in thorough)
            import random
            rnd = random.Random("%s/%d" % (zn, seed))
            st["suite_events_before_sampling"] = st.get("suite_events_before_sampling", 0) + len(keep) - 1
            keep = [keep[0]] + [keep[i] for i in sorted(rnd.sample(range(1, len(keep)), cap))]
        else:
            st["suite_events_before_sampling"] = st.get("suite_events_before_sampling", 0) + len(keep) - 1
        if len(keep) == 1:
            del zones[zn]
        else:
            zones[zn] = keep
            st["suite_events"] += len(keep) - 1
    st["suite_zones"] = len(zones)
    return zones, st


def shards(work, zones, nsh):
    """Distribute zones over nsh shard files (greedy by size), numbering z per shard."""
    nsh = max(1, min(nsh, len(zones)))
    bins = [[] for _ in range(nsh)]
    size = [0] * nsh
    for zn, evs in sorted(zones.items(), key=lambda kv: -len(kv[1])):
        i = size.index(min(size))
        bins[i].append(evs)
        size[i] += len(evs) + 40
    paths = []
    for i, b in enumerate(bins):
        if not b:
            continue
        p = os.path.join(work, "suite.%d.ndjson" % i)
        with open(p, "w") as f:
            for z, evs in enumerate(b, 1):
                for e in evs:
                    e["z"] = z
                    # key order: the zone checks read "e", "z", "name" from the head of a Load line
                    head = {"e": e["e"], "z": z}
                    if "name" in e:
                        head["name"] = e["name"]
                    head.update((k, v) for k, v in e.items() if k not in head)
                    f.write(json.dumps(head, separators=(",", ":")) + "\n")
        paths.append(p)
    return paths
