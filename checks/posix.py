"""C16: POSIX-TZ rule strings - exact acceptance and fully determined result.

Sentences (grammar products, boundary values, near misses, single-edit mutations, random bytes)
are fed to the real cctz::ParsePosixSpec under UBSan-trap with two pre-fill patterns of the result
struct; TLC validates verdict and every promised field against PosixTZ!ParseSpec (PosixTrace).
End to end: a sample of the sentences is wrapped as the footer of a TZif file and loaded
(ZoneTrace: a footer outside the grammar must make the load fail).
"""
import glob
import json
import os
import time

import posixgen
import tzgen
import verif as V


def classify(e):
    s = bytes(e["s"])
    if e.get("ub") == 1:
        return "Posix:undefined-behaviour"
    if 0 in s:
        return "Posix:embedded-NUL"
    if e["ok"] == 1:
        return "Posix:accepted-or-wrong-field"
    return "Posix:rejected-valid"


def tlc_sentences(verdict):
    """spec -> impl: the full product of the grammar's component sets, enumerated by TLC (GenPosix); cached by spec hash."""
    import hashlib
    h = hashlib.sha1(open(os.path.join(V.SPEC, "GenPosix.tla"), "rb").read() + open(os.path.join(V.SPEC, "PosixTZ.tla"), "rb").read()).hexdigest()[:12]
    cache = os.path.join(V.BUILD, "genposix-%s.txt" % h)
    if not os.path.exists(cache):
        r = V.tlc("GenPosix", "GenPosix.cfg", env={"FULL": "0"}, workers=1, timeout=1800, heap="6g")
        if not r.ok:
            verdict.infra_failure("GenPosix: " + r.tail(5))
            return [], 0
        out = []
        for ln in r.out.splitlines():
            if ln.startswith('"SENT '):
                out.append(bytes(json.loads(json.loads(ln)[5:])["s"]).hex())
        open(cache, "w").write("\n".join(out) + "\n")
    hexes = open(cache).read().split()
    return [bytes.fromhex(x) for x in hexes], len(hexes)


def _wide(w):
    return w[0] * sum(d * 10000 ** i for i, d in enumerate(w[1:]))


def _head(s):
    """((std abbr, std offset east), (dst abbr or None, dst offset east)) of a POSIX TZ sentence, or None (plain forms only)."""
    import re
    ab = rb"(<[A-Za-z0-9+\-]{3,}>|[A-Za-z]{3,})"
    off = rb"([+-]?)(\d{1,3})(?::(\d{1,2}))?(?::(\d{1,2}))?"
    m = re.match(ab + off + rb"(?:" + ab + rb"(?:" + off + rb")?)?(,.*)?$", s)
    if not m:
        return None
    g = m.groups()
    def val(sg, h, mi, se):
        v = int(h) * 3600 + int(mi or 0) * 60 + int(se or 0)
        return v if sg == b"-" else -v
    soff = val(*g[1:5])
    strip = lambda a: a[1:-1] if a.startswith(b"<") else a
    if abs(soff) > 24 * 3600:
        return None
    if g[5] is None:
        return (strip(g[0]), soff), (None, soff + 3600)
    doff = val(*g[6:10]) if g[7] is not None else soff + 3600
    if abs(doff) > 24 * 3600:
        return None
    return (strip(g[0]), soff), (strip(g[5]), doff)


def run(pid, tier, seed):
    t0 = time.time()
    verdict = V.Verdict(pid)
    work = V.workdir("posix-" + pid)
    ss = posixgen.sentences(seed, 3000 if tier == "quick" else 60000)
    gen, ngen = tlc_sentences(verdict)
    if tier == "quick":
        gen = [x for i, x in enumerate(gen) if i % 4 == seed % 4]
    # valid sentences of exact lengths: with the two newlines around it the footer then ends exactly at (or one byte off) a
    # block size an I/O layer may read in - 2^k for k = 6..14 - written with zero-padded numbers
    longs = []
    for k in (6, 7, 8):
        for d in (-1, 0, 1):
            n = 2 ** k - 2 + d
            head, tail = b"EST5EDT,M3.2.0,M11.1.0/", b"2"
            longs.append(head + b"0" * (n - len(head) - len(tail)) + tail)
    ss = list(dict.fromkeys(ss + gen + longs))
    with open(os.path.join(work, "in.txt"), "w") as f:
        f.write("".join(s.hex() + "\n" for s in ss))
    states = trans = 0
    samples = []
    events = 0
    try:
        exe = V.build_driver("drv_posix", "ubsan")
        zexe = V.build_driver("drv_zone", "asan")
    except V.BuildError as e:
        verdict.infra_failure("build failed: %s" % str(e)[-400:])
        exe = None
    if exe:
        nsh = max(2, V.NCPU - 2)
        dr = V.run_driver(exe, [os.path.join(work, "in.txt"), os.path.join(work, "t"), nsh], timeout=1800)
        if dr.returncode != 0:
            verdict.violation("driver-crash:rc%d" % dr.returncode, "drv_posix died: " + dr.stderr[-300:])
        shards = sorted(glob.glob(os.path.join(work, "t.*.ndjson")))
        for path, res in V.validate_shards("PosixTrace", "PosixTrace.cfg", shards, timeout=3000):
            lines = open(path).read().splitlines()
            events += len(lines)
            if res.infra_failure or res.distinct != len(lines) + 1:
                verdict.infra_failure("TLC on %s: %s" % (os.path.basename(path), res.tail(6)))
                continue
            states += res.distinct
            trans += res.generated - 1
            if len(samples) < 5 and lines:
                e = json.loads(lines[len(lines) // 3])
                e["s_text"] = bytes(e["s"]).decode("latin-1")
                samples.append(e)
            for n in V.reject_lines(res):
                e = json.loads(lines[n - 1])
                e["s_text"] = bytes(e["s"]).decode("latin-1")
                verdict.violation(classify(e), "ParsePosixSpec(%r) fill=%#x: ok=%d, rejected by PosixTrace: %s"
                                  % (bytes(e["s"]), e["fill"], e["ok"], json.dumps(e)[:300]), e)
        # ---- end to end: sentences as TZif footers
        r = __import__("random").Random(seed)
        pick = r.sample(ss, min(len(ss), 400 if tier == "quick" else 3000))
        pick += [x for x in longs if x not in pick]
        zl = os.path.join(work, "zones.txt")
        nvariant = 0
        os.makedirs(os.path.join(work, "z"), exist_ok=True)
        with open(zl, "w") as f:
            for i, s in enumerate(pick):
                if b"\n" in s:
                    continue
                types = [(-1000, False, b"LMT"), (-18000, False, b"EST"), (-14400, True, b"EDT")]
                # every other file: the recorded types sit at the footer's own offsets under designations that merely
                # EXTEND (or are a prefix of) the footer's - the footer's text, not a look-alike, names the future
                h = _head(s)
                if h and i % 2 == 1:
                    (sab, soff), (dab, doff) = h
                    ext = (lambda a: a + b"X") if i % 4 == 1 or min(len(sab), len(dab or sab)) < 4 else (lambda a: a[:-1])
                    types = [(-1000, False, b"LMT"), (soff, False, ext(sab)),
                             (doff, True, ext(dab)) if dab else (soff + 3600, True, ext(sab) + b"D")]
                    nvariant += 1
                data = tzgen.tzif(2, [(-2000000000, 1), (1000000000, 2), (1010000000, 1)], types, s)
                p = os.path.join(work, "z", "f%d.tzif" % i)
                open(p, "wb").write(data)
                f.write("footer/%d\t%s\n" % (i, p))
        dz = V.run_driver(zexe, [zl, os.path.join(work, "zt"), 4, seed, tier, "break"], timeout=1800)
        if dz.returncode != 0:
            verdict.violation("driver-crash-e2e:rc%d" % dz.returncode, "drv_zone died on footer files: " + dz.stderr[-300:])
        nfooter = 0
        zbytes = {}
        for path, res in V.validate_shards("ZoneTrace", "ZoneTrace.cfg", sorted(glob.glob(os.path.join(work, "zt.*.ndjson"))), timeout=3000):
            lines = open(path).read().splitlines()
            if res.infra_failure or res.distinct != len(lines) + 1:
                verdict.infra_failure("TLC(ZoneTrace) on %s: %s" % (os.path.basename(path), res.tail(6)))
                continue
            states += res.distinct
            trans += res.generated - 1
            nfooter += sum(1 for ln in lines if ln.startswith('{"e":"Load"'))
            for ln in lines:
                if ln.startswith('{"e":"Load"'):
                    le = json.loads(ln)
                    zbytes[(path, le.get("z"))] = le["bytes"]
            for n in V.reject_lines(res):
                e = json.loads(lines[n - 1])
                # lookups well past the recorded data (three years after its last entry, clear of the seam, whose handling
                # belongs to C01): there the footer alone dictates offset, DST flag and designation
                if e["e"] == "Break" and "abbr" in e and _wide(e["t"]) >= 1010000000 + 3 * 366 * 86400:
                    b = bytes(zbytes.get((path, e.get("z")), b""))
                    foot = b[:-1].rsplit(b"\n", 1)[-1]
                    verdict.violation("Break:footer-zone",
                                      "lookup in a TZif file with footer %r: rejected by ZoneTrace: %s" % (foot, json.dumps(e)[:300]), e)
                    continue
                if e["e"] != "Load":
                    continue
                b = bytes(e["bytes"])
                foot = b[:-1].rsplit(b"\n", 1)[-1]
                e["bytes"] = "(%d bytes)" % len(b)
                e["footer"] = foot.decode("latin-1")
                verdict.violation("Load:footer" + (":embedded-NUL" if 0 in foot else ""),
                                  "TZif file with footer %r: load ok=%d, rejected by ZoneTrace" % (foot, e["ok"]), e)
    V.log("[%s] %d sentences, %d events, %d rejected" % (pid, len(ss), events, len(verdict.violations) + len(verdict.known)))
    ev = {"property_id": pid, "tier": tier, "seed": seed, "level": "model_checking",
          "coverage": {"states": states, "transitions": trans, "traces_validated_against_impl": len(ss),
                       "evaluations": events, "distinct_nontrivial": len(ss),
                       "tlc_enumerated_grammar_product": ngen,
                       "rule": "distinct sentences: the full product of the grammar's component alternatives enumerated by TLC (GenPosix: 172 905 "
                               "sentences, every fourth in quick), one-component-at-a-time sweeps over every value/boundary of each grammar "
                               "component, std-only products, structural near misses, random combinations, single-edit mutations, "
                               "random byte strings; each run with 2 pre-fill patterns; a sample also end-to-end as TZif footers",
                       "samples": samples or ["(none)"], "exhaustive": False},
          "assumptions": ["TLC; PosixTZ!ParseSpec as the transcription of the property's grammar",
                          "strings beginning with ':' are unconstrained (POSIX: implementation-defined)",
                          "UBSan trap mode observes invalid enum loads / overflow inside ParsePosixSpec"],
          "wall_s": time.time() - t0}
    return verdict.finish(ev)
