"""Small-world zones (spec/MCZone.tla).

TLC enumerates every abstract zone within tiny bounds, checks the listed properties on the
specification itself (invariants C02 C03 C06 C10 C11 of MCZone) and prints each zone together with
the answers the specification assigns; harness/replay_zone.cc loads the equivalent TZif file into
the real library and compares every answer (spec -> impl).  The TLC export depends only on the
specification, so it is cached under build/ keyed by the hash of spec/*.tla + parameters; the replay
against the code under test is always re-run.
"""
import concurrent.futures as cf
import hashlib
import json
import os
import re
import time

import tzgen
import verif as V

INV = {"C01": [], "C02": ["C02"], "C03": ["C03"], "C06": ["C06"], "C10": ["C10", "C02"], "C11": ["C11"], "C14": []}
KINDS = {"C01": ("B", "LOAD"), "C02": ("M",), "C03": ("C03",), "C06": ("C06",), "C10": ("UB", "M", "B"),
         "C11": ("N", "P"), "C14": ("B", "M", "N", "P")}
ALLINV = ["C02", "C03", "C06", "C10", "C11"]


def _spec_hash():
    h = hashlib.sha1()
    for f in sorted(os.listdir(V.SPEC)):
        if f.endswith(".tla") and "_TTrace_" not in f:
            h.update(open(os.path.join(V.SPEC, f), "rb").read())
    return h.hexdigest()[:12]


def _cfg(path, real, palettes, grid, maxtrans, export, shard, nshards):
    V.write_cfg(path, """SPECIFICATION Spec
CONSTANTS
  TMin <- %s
  TMax <- %s
  BigBangT <- %s
  Palettes = {%s}
  Grid <- %s
  MaxTrans = %d
  WinLo <- WinLoV
  WinHi = 16
  Export = %s
  Shard = %d
  NShards = %d
  BBNative %s
INVARIANTS %s Exported
CHECK_DEADLOCK FALSE
""" % ((("RealTMin", "RealTMax", "RealBigBang") if real else ("SmallTMin", "SmallTMax", "SmallBigBang")) +
         (",".join(map(str, palettes)), grid, maxtrans, "TRUE" if export else "FALSE", shard, nshards,
          "= 0" if real else "<- BBSmall", " ".join(ALLINV))))
    return path


def zone_bytes(z):
    types = [(t["off"], t["dst"], bytes(t["abbr"])) for t in z["types"]]
    trans = []
    if z["bb"]:
        trans.append((-2 ** 59, z["bb"] - 1))
    trans += [(t, k - 1) for t, k in z["tr"]]
    return tzgen.tzif(2, trans, types, b"")


def _cs(c):
    return " ".join(str(x) for x in c)


def to_replay_text(zones, out):
    with open(out, "w") as f:
        for i, z in enumerate(zones):
            zid = "p%db%d_%s" % (z["pal"], z["bb"], "_".join("%d.%d" % (t, k) for t, k in z["tr"]) or "none")
            f.write("Z %s %d %s\n" % (zid, 1 if z["wf"] else 0, zone_bytes(z).hex()))
            for b in z["B"]:
                f.write("B %d %s %d %d %s\n" % (b["t"], _cs(b["cs"]), b["off"], 1 if b["dst"] else 0, bytes(b["abbr"]).hex() or "00"))
            for m in z["M"] or []:
                if m["kind"] == "ILLFORMED":
                    continue
                f.write("M %s %s %d %d %d\n" % (_cs(m["cs"]), m["kind"][0], m["pre"], m["trans"], m["post"]))
            for tag, key in (("N", "NX"), ("P", "PV")):
                for n in z[key]:
                    if n["ok"]:
                        f.write("%s %d 1 %s %s\n" % (tag, n["t"], _cs(n["from"]), _cs(n["to"])))
                    else:
                        f.write("%s %d 0\n" % (tag, n["t"]))


def export(tier, seed, verdict):
    """Runs (or reuses) the TLC enumeration; returns (list of zone dicts, stats)."""
    if tier == "thorough":
        palettes, grid, maxtrans, nsh = [1, 2, 3, 4, 5, 6], "GridB", 3, max(2, V.NCPU - 2)
    else:
        rot = [[1, 2], [3, 4], [5, 1], [2, 3], [4, 5]][seed % 5]
        palettes, grid, maxtrans, nsh = rot + [6], "GridA", 2, 8       # palette 6 (designation-only entries beside offset changes) always
    key = "%s-%s-%s-%d" % (_spec_hash(), "".join(map(str, palettes)), grid, maxtrans)
    cdir = os.path.join(V.BUILD, "smallworld", key)
    meta = os.path.join(cdir, "meta.json")
    if os.path.exists(meta):
        st = json.load(open(meta))
        zones = [json.loads(l) for l in open(os.path.join(cdir, "zones.ndjson"))]
        st["cached"] = True
        return zones, st
    os.makedirs(cdir, exist_ok=True)
    t0 = time.time()

    def one(sh):
        cfg = _cfg(os.path.join(cdir, "gen.%d.cfg" % sh), True, palettes, grid, maxtrans, True, sh, nsh)
        return V.tlc("MCZone", cfg, workers=1, timeout=6 * 3600, heap="3g", tag="mczone-gen-%d" % sh)

    def small():
        cfg = _cfg(os.path.join(cdir, "small.cfg"), False, palettes, grid, min(maxtrans, 2), False, 0, 1)
        return V.tlc("MCZone", cfg, workers=4, timeout=6 * 3600, heap="4g", tag="mczone-small")
    def impl():
        # the implementation-shaped model (table, sentinels, hints) refines the declarative one
        p = os.path.join(cdir, "impl.cfg")
        V.write_cfg(p, open(os.path.join(V.SPEC, "MCZoneImpl.cfg")).read()
                    .replace("Palettes = {1, 3}", "Palettes = {%s}" % ",".join(map(str, palettes)))
                    .replace("MaxTrans = 2", "MaxTrans = %d" % min(maxtrans, 2 if tier != "thorough" else 3))
                    .replace("Grid <- GridA", "Grid <- %s" % grid))
        return V.tlc("MCZoneImpl", p, workers=4, timeout=6 * 3600, heap="4g", tag="mczone-impl")
    def rule():
        # real-range zones with a DST rule: the 403-year table + 400-year shift design (ZoneImplRule) refines Zone
        zs = [(n, p) for n, p in tzgen.shipped_zones(V.REPO) if n in ("America/New_York", "Australia/Lord_Howe", "Europe/Dublin", "America/Nuuk")]
        zs += [(n, p) for n, p in tzgen.write_corpus(os.path.join(cdir, "rulezones"), 1, 0) if "special" in n or "old-4" in n or "old-5" in n or "old-3" in n]
        zf = os.path.join(cdir, "rulezones.ndjson")
        with open(zf, "w") as f:
            for n, p in zs:
                f.write(json.dumps({"name": n, "bytes": list(open(p, "rb").read())}) + "\n")
        cfgp = os.path.join(cdir, "mcrule.cfg")
        V.write_cfg(cfgp, open(os.path.join(V.SPEC, "MCRule.cfg")).read().replace("YearStep = 7", "YearStep = %d" % (1 if tier == "thorough" else 29)))
        return V.tlc("MCRule", cfgp, env={"ZONES": zf}, workers=6, timeout=6 * 3600, heap="8g", tag="mcrule")
    def posixlaws():
        # the rule-evaluation operators of PosixTZ against first principles (every date form x the 14 year shapes)
        return V.tlc("MCPosix", "MCPosix.cfg", workers=2, timeout=3600, heap="2g", tag="mcposix")
    with cf.ThreadPoolExecutor(max_workers=nsh + 4) as ex:
        fs = [ex.submit(one, sh) for sh in range(nsh)]
        fsm = ex.submit(small)
        fim = ex.submit(impl)
        fru = ex.submit(rule)
        fpo = ex.submit(posixlaws)
        rs = [f.result() for f in fs]
        rsm = fsm.result()
        rim = fim.result()
        rru = fru.result()
        rpo = fpo.result()
    zones = []
    st = {"states": 0, "transitions": 0, "cached": False, "palettes": palettes, "grid": grid, "max_transitions": maxtrans,
          "invariants_checked_on_spec": ALLINV + ["LoadsAllWellFormed", "ImplBreak", "ImplMake", "ImplTrans (ZoneImpl refines Zone for every hint value)",
                                        "MCRule: BreakRefines, MakeRefines (403-year table + 400-year shift refine Zone on real-range DST zones, intermediates fit int64)",
                                        "MCPosix: MLaw, JLaw, NLaw, InstantLaw (rule evaluation against first principles)"],
          "spec_violation": None}
    st["zoneimpl_refinement_states"] = rim.distinct
    st["rule_table_refinement_states"] = rru.distinct
    for r in rs + [rsm, rim, rru, rpo]:
        st["states"] += r.distinct
        st["transitions"] += r.generated
        if r.verdict_violation:
            st["spec_violation"] = r.tail(30)
        elif not r.ok:
            verdict.infra_failure("MCZone: " + r.tail(6))
            return [], st
    for r in rs:
        for ln in r.out.splitlines():
            if ln.startswith('"ZONE '):
                # TLC prints the string value quoted and escaped
                zones.append(json.loads(json.loads(ln)[5:]))
    st["zones"] = len(zones)
    st["wellformed"] = sum(1 for z in zones if z["wf"])
    st["tlc_wall_s"] = round(time.time() - t0, 1)
    if st["spec_violation"] is None:
        with open(os.path.join(cdir, "zones.ndjson"), "w") as f:
            for z in zones:
                f.write(json.dumps(z) + "\n")
        json.dump(st, open(meta + ".tmp%d" % os.getpid(), "w"))
        os.rename(meta + ".tmp%d" % os.getpid(), meta)
    return zones, st


def run(pid, tier, seed, verdict):
    zones, st = export(tier, seed, verdict)
    if st.get("spec_violation"):
        verdict.violation("spec:MCZone", "the specification itself violates an invariant of MCZone:\n" + st["spec_violation"])
        return st
    if not zones:
        return st
    work = V.workdir("smallworld-" + pid)
    txt = os.path.join(work, "replay.txt")
    to_replay_text(zones, txt)
    try:
        exe = V.build_driver("replay_zone", "asan")
    except V.BuildError as e:
        verdict.infra_failure("build failed: %s" % str(e)[-300:])
        return st
    r = V.run_driver(exe, [txt], timeout=3000)
    m = re.search(r"SUMMARY zones=(\d+) loaded=(\d+) answers=(\d+) relations=(\d+) mismatches=(\d+) ub=(\d+)", r.stdout)
    if r.returncode != 0 or not m:
        verdict.violation("smallworld-replay-crash:rc%d" % r.returncode, "replay_zone died: " + (r.stderr or r.stdout)[-500:])
        return st
    st.update(replayed=int(m.group(1)), replay_loaded=int(m.group(2)), replayed_answers=int(m.group(3)) + int(m.group(4)))
    want = KINDS[pid]
    for ln in r.stdout.splitlines():
        if ln.startswith("MISMATCH "):
            kind = ln.split()[1]
            if kind in want:
                verdict.violation("smallworld:%s" % kind, "spec-generated small-world case disagrees with the code: " + ln[:300],
                                  {"line": ln})
    st["replay_mismatches_all_kinds"] = int(m.group(5))
    return st
