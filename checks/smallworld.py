"""Small-world zones: TLC enumerates every abstract zone within tiny bounds, checks the listed
properties on the specification, and exports zones + expected answers for replay against the real
code (spec -> impl).  Filled in by MCZone / GenZone; returns coverage counters."""


def run(pid, tier, seed, verdict):
    return {"states": 0, "transitions": 0, "replayed": 0, "replayed_answers": 0, "note": "not built yet"}
