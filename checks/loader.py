"""C13 / C20 (and the cache half of C14): the zone loader.

1. TLC model-checks spec/Loader.tla (repaired protocol: 2 threads x 2 calls, 3 threads x 1 call,
   4 threads in thorough) for the C13/C20 invariants, the action property Sticky and termination.
2. spec -> impl: TLC dumps the labelled state graph; behaviours (an edge cover + seeded random walks)
   are stepped through the real LoadTimeZone by harness/replay_loader.cc using the yield hooks and a
   blocking, recording factory, under ThreadSanitizer; the observed abstract state after every action
   is compared with the model by TLC (spec/LoaderTrace.tla).
3. attack: behaviours of the *unserialised* protocol (which violate C20 in the model) are attempted
   against the code; they must not be realisable.
4. free-running stress (up to 64 threads under TSan) with a linear history check in LoaderTrace.
"""
import collections
import json
import os
import random
import re
import time

import verif as V

EDGE = re.compile(r'^(-?\d+) -> (-?\d+) \[label="([A-Za-z0-9]+)\(([^)]*)\)"')


def mk_cfg(path, threads, names, kind, maxcalls, serialize, invs, props=True, spec="FairSpec"):
    V.write_cfg(path, "SPECIFICATION %s\nCONSTANTS\n  Threads = {%s}\n  Names <- %s\n  Kind <- %s\n  MaxCalls = %d\n"
                      "  SerializeLoads = %s\nINVARIANTS TypeOK %s\n%sCHECK_DEADLOCK FALSE\n"
                % (spec, ", ".join('"t%d"' % i for i in range(1, threads + 1)), names, kind, maxcalls,
                   "TRUE" if serialize else "FALSE", " ".join(invs), "PROPERTIES Sticky AllReturn\n" if props else ""))
    return path


def graph(work, tag, threads, names, kind, maxcalls, serialize):
    cfg = mk_cfg(os.path.join(work, "gen_%s.cfg" % tag), threads, names, kind, maxcalls, serialize, [], props=False, spec="Spec")
    dot = os.path.join(work, "g_%s.dot" % tag)
    r = V.tlc("MCLoader", cfg, workers=4, timeout=1200, extra=["-dump", "dot,actionlabels", dot], tag="mcl-gen-" + tag)
    adj = collections.defaultdict(list)
    init = None
    if not os.path.exists(dot):
        return r, adj, None
    for ln in open(dot):
        m = EDGE.match(ln)
        if m:
            a, b, act, args = m.groups()
            args = [x.strip().strip('\\"') for x in args.split(",")]
            if a != b:
                adj[a].append((b, act, args))
        elif init is None:
            m2 = re.match(r'^(-?\d+) \[label=', ln)
            if m2 and "style = filled" in ln:
                init = m2.group(1)
    os.remove(dot)
    return r, adj, init


def walks(adj, init, rnd, n_random):
    """edge cover first (greedy), then random walks; each walk ends in a terminal state."""
    unseen = set((a, i) for a in adj for i in range(len(adj[a])))
    out = []

    def walk(prefer_unseen):
        s, path = init, []
        while adj.get(s):
            opts = list(range(len(adj[s])))
            if prefer_unseen:
                u = [i for i in opts if (s, i) in unseen]
                if u:
                    opts = u
            i = rnd.choice(opts)
            unseen.discard((s, i))
            b, act, args = adj[s][i]
            path.append((act, args))
            s = b
        return path
    guard = 0
    while unseen and guard < 20000:
        guard += 1
        out.append(walk(True))
    cover = len(out)
    for _ in range(n_random):
        out.append(walk(False))
    return out, cover


def run(pid, tier, seed):
    t0 = time.time()
    verdict = V.Verdict(pid)
    st, events, samples = explore(pid, tier, seed, verdict, full=True)
    V.log("[%s] %s; %d events" % (pid, {k: v for k, v in st.items() if not isinstance(v, dict)}, events))
    ev = {"property_id": pid, "tier": tier, "seed": seed, "level": "model_checking",
          "coverage": {"states": st["states"], "transitions": st["transitions"],
                       "traces_validated_against_impl": st.get("replayed_behaviours", 0),
                       "evaluations": events, "distinct_nontrivial": st.get("replayed_behaviours", 0),
                       "rule": "behaviours = maximal paths of TLC's state graph of Loader (an edge cover of the 2- and 3-thread graphs "
                               "plus seeded random walks) replayed step by step into the real LoadTimeZone, attack schedules of the "
                               "unserialised protocol, and free-running stress histories; distinct by construction (graph walks)",
                       "samples": samples or ["(none)"], "detail": st, "exhaustive": False},
          "assumptions": ["TLC; spec/Loader.tla as the model of LoadTimeZone at critical-section granularity",
                          "ThreadSanitizer observes data races on the executed schedules only",
                          "hooks (GOOGLE_CCTZ_VERIF) give controllability; verdicts rest on factory observations and returned values"],
          "wall_s": time.time() - t0}
    return verdict.finish(ev)


def explore(pid, tier, seed, verdict, full=True):
    """full = False: only the 2-thread conformance replay (used by C14 for the name-cache clause)."""
    work = V.workdir("loader-" + pid)
    rnd = random.Random(seed)
    st = {"states": 0, "transitions": 0}
    invs = ["FactoryOnce", "FactorySerial", "NoFactoryForFixed", "Agree", "SeqEquiv", "LoadLockHeld"]
    # ---- 1. model check
    cfgs = [("fix2", 2, "MCNames", "MCKind", 2)] + ([("fix3", 3, "MCNames", "MCKind", 1)] if full else [])
    if tier == "thorough" and full:
        cfgs.append(("fix4", 4, "MCNames2", "MCKind2", 1))
    for tag, k, names, kind, mc in cfgs:
        r = V.tlc("MCLoader", mk_cfg(os.path.join(work, "mc_%s.cfg" % tag), k, names, kind, mc, True, invs),
                  workers=V.NCPU, timeout=3000, heap="8g", tag="mcl-" + tag)
        st["states"] += r.distinct
        st["transitions"] += r.generated
        st["mc_" + tag] = r.distinct
        if r.verdict_violation:
            verdict.violation("spec:MCLoader:" + tag, "the loader model violates a property:\n" + r.tail(40))
        elif not r.ok:
            verdict.infra_failure("MCLoader %s: %s" % (tag, r.tail(6)))
    # the unserialised protocol is the negative control: the model must find the C20 violation there
    r = V.tlc("MCLoader", mk_cfg(os.path.join(work, "mc_cur2.cfg"), 2, "MCNames2", "MCKind2", 1, False,
                                 ["FactoryOnce", "FactorySerial"], props=False, spec="Spec"), workers=4, timeout=600, tag="mcl-cur2")
    st["negative_control_finds_violation"] = bool(r.verdict_violation)
    if not r.verdict_violation:
        verdict.infra_failure("negative control: the unserialised model no longer violates C20 (vacuity guard): " + r.tail(5))
    # ---- 2/3. behaviours
    lines = []
    beh = 0
    nb = {}
    plans = [("s2", 2, "MCNames2", "MCKind2", 2, True, 300 if tier == "quick" else 5000),
             ("s3", 3, "MCNames2", "MCKind2", 1, True, 300 if tier == "quick" else 5000),
             ("a2", 2, "MCNames2", "MCKind2", 1, False, 150 if tier == "quick" else 2000),
             ("a3", 3, "MCNames2", "MCKind2", 1, False, 100 if tier == "quick" else 2000)]
    if not full:
        plans = [("s2", 2, "MCNames2", "MCKind2", 2, True, 150 if tier == "quick" else 1500)]
    for tag, k, names, kind, mc, ser, nrand in plans:
        r, adj, init = graph(work, tag, k, names, kind, mc, ser)
        if init is None:
            verdict.infra_failure("state graph %s: %s" % (tag, r.tail(5)))
            continue
        st["states"] += r.distinct
        st["transitions"] += r.generated
        ws, cover = walks(adj, init, rnd, nrand)
        if tier == "quick" or not full:
            # a seed-rotated part of the edge cover + the random walks
            cw = ws[:cover]
            rnd.shuffle(cw)
            ws = cw[: (400 if ser else 60)] + ws[cover:][: (150 if ser else 60)]
        nb[tag] = {"behaviours": len(ws), "edge_cover_walks": cover, "graph_states": r.distinct}
        for w in ws:
            beh += 1
            lines.append("B %d %s" % (beh, "S" if ser else "A"))
            for act, args in w:
                lines.append("S %s %s %s" % (act, args[0], args[1] if len(args) > 1 else "-"))
            lines.append("E")
    nth = 16 if tier == "quick" else 64
    lines.append("TW %d" % nth)
    for i in range((3 if tier == "quick" else 12) if full else 1):
        lines.append("T %d %d" % (nth, 40 if tier == "quick" else 150))
    for i in range(3 if tier == "quick" else 30):
        lines.append("R %d" % i)            # re-entrant factory (also for C14's cache clause)
    if full:
        for i in range(3 if tier == "quick" else 30):
            lines.append("X %d" % i)        # throwing factory
        lines.append("H 8 %d" % (20000 if tier == "quick" else 400000))
    bf = os.path.join(work, "behaviours.txt")
    open(bf, "w").write("\n".join(lines) + "\n")
    out = os.path.join(work, "t.0.ndjson")
    samples = []
    events = 0
    try:
        exe = V.build_driver("replay_loader", "tsan")
    except V.BuildError as e:
        verdict.infra_failure("build failed: %s" % str(e)[-500:])
        exe = None
    if exe:
        good = os.path.join(V.REPO, "testdata", "zoneinfo", "America", "New_York")
        # (a change that makes a load wait for ever must not hold the check for long: the quick replay takes about a minute)
        dr = V.run_driver(exe, [bf, out, good], timeout=600 if tier == "quick" else 3000, env={"TSAN_OPTIONS": "halt_on_error=0:report_signal_unsafe=0"})
        m = re.search(r"behaviours=(\d+) steps=(\d+) lost=(\d+)", dr.stderr)
        if m:
            st["replayed_behaviours"], st["replayed_steps"], st["steps_not_followed"] = map(int, m.groups())
        if "ThreadSanitizer" in dr.stderr:
            verdict.violation("tsan-report", "ThreadSanitizer reported: " + dr.stderr[dr.stderr.find("WARNING"):][:1500])
        elif dr.returncode == 124:
            verdict.violation("replay-hang", "replay_loader did not finish (a load that never returns): " + dr.stderr[-500:])
        elif dr.returncode != 0:
            verdict.violation("replay-crash:rc%d" % dr.returncode, "replay_loader died: " + dr.stderr[-500:])
        # the very first loads of a process (the lazily created cache does not exist yet): the canonical
        # attack schedules in fresh processes
        evs_fresh = []
        if full:
            fresh_b = os.path.join(work, "fresh.txt")
            plans_f = [["Call t1 a", "Call t2 a", "Check1 t1 -", "Check1 t2 -", "Construct t1 -", "Construct t2 -", "FactoryReturn t1 -", "Insert t1 -", "FactoryReturn t2 -", "Insert t2 -"],
                       ["Call t1 a", "Check1 t1 -", "Construct t1 -", "Call t2 a", "Check1 t2 -", "Construct t2 -", "FactoryReturn t1 -", "Insert t1 -", "FactoryReturn t2 -", "Insert t2 -"],
                       ["Call t1 fx", "Call t2 fx", "Check1 t1 -", "Check1 t2 -", "Construct t1 -", "Construct t2 -", "Insert t1 -", "Insert t2 -"],
                       ["Call t1 a", "Call t2 bad", "Check1 t1 -", "Check1 t2 -", "Construct t1 -", "Construct t2 -", "FactoryReturn t2 -", "Insert t2 -", "FactoryReturn t1 -", "Insert t1 -"]]
            for i, pl in enumerate(plans_f * (1 if tier == "quick" else 4)):
                open(fresh_b, "w").write("B %d A\n" % (900000 + i) + "".join("S %s\n" % x for x in pl) + "E\n")
                fo = os.path.join(work, "fresh.%d.ndjson" % i)
                fr = V.run_driver(exe, [fresh_b, fo, good, "--fresh"], timeout=300, env={"TSAN_OPTIONS": "halt_on_error=0:report_signal_unsafe=0"})
                if "ThreadSanitizer" in fr.stderr:
                    verdict.violation("tsan-report", "ThreadSanitizer reported (fresh process): " + fr.stderr[fr.stderr.find("WARNING"):][:1500])
                if os.path.exists(fo):
                    evs_fresh += open(fo).read().splitlines()
            st["fresh_process_attacks"] = len(evs_fresh)
            # ... and processes whose first calls into the library come from 8 threads at the same moment
            nfu = 0
            for i in range(24 if tier == "quick" else 300):
                fo = os.path.join(work, "firstuse.ndjson")
                fr = V.run_driver(exe, [fresh_b, fo, good, "--firstuse"], timeout=120, env={"TSAN_OPTIONS": "halt_on_error=0:report_signal_unsafe=0"})
                if "ThreadSanitizer" in fr.stderr:
                    verdict.violation("tsan-report", "ThreadSanitizer reported (first use): " + fr.stderr[fr.stderr.find("WARNING"):][:1500])
                if os.path.exists(fo):
                    evs_fresh += open(fo).read().splitlines()
                    nfu += 1
                    os.remove(fo)
            st["first_use_processes"] = nfu
            # ... and processes in which threads keep loading while main() has returned and static destructors run
            nax = 0
            for i in range(6 if tier == "quick" else 60):
                fo = os.path.join(work, "atexit.ndjson")
                if os.path.exists(fo):
                    os.remove(fo)
                fr = V.run_driver(exe, [fresh_b, fo, good, "--atexit"], timeout=120, env={"TSAN_OPTIONS": "halt_on_error=0:report_signal_unsafe=0"})
                if "ThreadSanitizer" in fr.stderr:
                    verdict.violation("tsan-report", "ThreadSanitizer reported (process exit): " + fr.stderr[fr.stderr.find("WARNING"):][:1500])
                elif fr.returncode != 0 or not os.path.exists(fo):
                    verdict.violation("exit-crash:rc%d" % fr.returncode, "a process whose threads were still loading zones died while exiting: " + fr.stderr[-400:])
                if os.path.exists(fo):
                    evs_fresh += open(fo).read().splitlines()
                    nax += 1
            st["exit_processes"] = nax
        # split the log at LBegin boundaries into shards for parallel validation
        evs = open(out).read().splitlines() + evs_fresh
        events = len(evs)
        nsh = max(2, V.NCPU - 2)
        chunks = [[] for _ in range(nsh)]
        cur, idx = [], 0
        for ln in evs:
            if ln.startswith('{"e":"LBegin"') or ln.startswith('{"e":"SCall"') and not cur_is_stress(cur):
                if cur:
                    chunks[idx % nsh].extend(cur)
                    idx += 1
                cur = []
            cur.append(ln)
        if cur:
            chunks[idx % nsh].extend(cur)
        shards = []
        for i, c in enumerate(chunks):
            if c:
                p = os.path.join(work, "v.%d.ndjson" % i)
                open(p, "w").write("\n".join(c) + "\n")
                shards.append(p)
        for path, res in V.validate_shards("LoaderTrace", "LoaderTrace.cfg", shards, timeout=3000):
            ls = open(path).read().splitlines()
            if res.infra_failure or res.distinct != len(ls) + 1:
                if res.ok or res.verdict_violation:
                    # the model could not follow the recorded behaviour at all
                    verdict.violation("trace-not-consumed", "LoaderTrace stopped after %d of %d lines of %s: next line %s"
                                      % (res.distinct - 1, len(ls), os.path.basename(path), ls[min(res.distinct - 1, len(ls) - 1)][:300]))
                else:
                    verdict.infra_failure("TLC on %s: %s" % (os.path.basename(path), res.tail(8)))
                continue
            st["states"] += res.distinct
            st["transitions"] += res.generated - 1
            if len(samples) < 4:
                samples.append(json.loads(ls[len(ls) // 2]))
            for n in V.reject_lines(res):
                e = json.loads(ls[n - 1])
                k = e["e"]
                if k == "LStep":
                    key = "LStep:%s:%s" % (e["act"], "factory" if (e["overlap"] or e["wrongthread"] or e["act"] in ("Construct", "FactoryReturn")) else "state")
                elif k == "Attack":
                    fac = e["overlap"] or e["wrongthread"] or e["maxcalls"] > 1
                    res_bad = e.get("agree", 1) == 0 or e.get("okmismatch", 0) == 1
                    key = "Attack:" + ("factory" if fac else "results")
                else:
                    key = k
                    fac = res_bad = False
                relevant = (pid == "C20" and ((k == "Attack" and fac) or k in ("SFacEnter", "LStep", "AfterThrow") or (k == "SHammer" and e.get("race") == 1))) or \
                           (pid == "C13" and ((k == "Attack" and res_bad) or k in ("LStep", "SRet", "SFacEnter", "SHammer", "FirstUse", "Reentrant", "AtExit"))) or \
                           (pid == "C14" and k in ("LStep", "SRet", "SFacEnter", "Reentrant"))      # the name cache is invisible
                if pid == "C14":
                    key = "cache:" + key
                if relevant:
                    verdict.violation(key, "rejected by LoaderTrace: " + ls[n - 1][:400], e)
    st.update(nb)
    return st, events, samples


def cur_is_stress(cur):
    return bool(cur) and cur[0].startswith('{"e":"S')
