"""C12: loading arbitrary bytes as zone data is memory-safe, terminating and deterministic.

Fault enumeration (lib/mutgen.py: every header count, version/magic byte, index, offset, transition
time and section boundary of the structure that spec/TZif.tla decodes, footer sentences, full type
tables, plus seeded byte-level mutations) applied to shipped and generated skeleton files.  Every
mutated file is loaded into the real library under ASan(+container overflow)+UBSan-trap with a per-file
alarm; when it loads, the limit/conversion/transition panels run on it.  TLC (ZoneTrace) decodes the
very bytes and decides: files of the zic class must load, files with leap records or a footer outside
the grammar must fail, every call must be free of undefined behaviour, and answers must equal the
specification whenever the decoded zone is WellFormed.  Determinism: a twin load under another name,
and identical event logs from four builds/runs that pre-fill automatic variables and fresh heap memory
differently (-ftrivial-auto-var-init=pattern|zero, ASan malloc_fill_byte 0xAA|0x55).
"""
import collections
import glob
import hashlib
import json
import os
import random
import re
import time

import mutgen
import tzgen
import verif as V
from checks import zone


def corpus(work, tier, seed):
    r = random.Random(seed)
    ship = dict(tzgen.shipped_zones(V.REPO))
    skel_names = ["Etc/UTC", "Asia/Tokyo", "America/New_York", "Africa/Monrovia", "Australia/Lord_Howe", "Asia/Kolkata",
                  "America/Nuuk", "Europe/Dublin", "Africa/Casablanca", "Pacific/Apia"]
    skel = [open(ship[n], "rb").read() for n in skel_names if n in ship]
    gen = tzgen.write_corpus(os.path.join(work, "skel"), seed, 8)
    skel += [open(p, "rb").read() for _, p in gen]
    cases = []
    for i, b in enumerate(skel):
        for tag, m in mutgen.structured(b, r):
            cases.append(("s%d:%s" % (i, tag), m))
    for tag, m in mutgen.type_table_full(r):
        cases.append((tag, m))
    cases += [("b:%s:%d" % (tag, i), m) for i, (tag, m) in enumerate(mutgen.bytelevel(skel, r, 1500 if tier == "quick" else 15000))]
    if tier == "quick":
        # the structured classes are many: keep every class for 3 seed-rotated skeletons, a sample for the rest
        keep = []
        rot = {seed % len(skel), (seed + 5) % len(skel), (seed + 11) % len(skel)}
        for tag, m in cases:
            if tag[0] != "s" or int(tag[1:tag.index(":")]) in rot or r.random() < 0.12:
                keep.append((tag, m))
        cases = keep
    seen, out = set(), []
    os.makedirs(os.path.join(work, "m"), exist_ok=True)
    zl = os.path.join(work, "zones.txt")
    with open(zl, "w") as f:
        for tag, m in cases:
            if len(m) > 65536 or mutgen.declared_length(m) > 64 * 1024 * 1024:
                continue        # the property presumes enough memory for the declared data length
            h = hashlib.sha1(m).hexdigest()
            if h in seen:
                continue
            seen.add(h)
            p = os.path.join(work, "m", h[:16])
            open(p, "wb").write(m)
            name = re.sub(r"[^A-Za-z0-9:=@+\-\[\]._]", "_", tag)[:60] + "#" + h[:6]
            f.write("%s\t%s\n" % (name, p))
            out.append((name, p))
    return zl, out


def run(pid, tier, seed):
    t0 = time.time()
    verdict = V.Verdict(pid)
    work = V.workdir("load")
    zl, cases = corpus(work, tier, seed)
    ancient = set(n for n, p in cases if tzgen.is_ancient_dst(open(p, "rb").read()))
    fams = "limits,break,make,trans,twin,small"
    outs = {}
    nsh = max(2, V.NCPU - 2)
    runs = [("asan", "A", {"ASAN_OPTIONS": "detect_leaks=0:abort_on_error=1:handle_sigill=0:allocator_may_return_null=1:max_malloc_fill_size=268435456:malloc_fill_byte=170"}),
            ("asan", "B", {"ASAN_OPTIONS": "detect_leaks=0:abort_on_error=1:handle_sigill=0:allocator_may_return_null=1:max_malloc_fill_size=268435456:malloc_fill_byte=85"}),
            ("pat", "P", {}), ("zero", "Z", {})]
    crashed = False
    for variant, tag, env in runs:
        try:
            exe = V.build_driver("drv_zone", variant)
        except V.BuildError as e:
            verdict.infra_failure("build %s failed: %s" % (variant, str(e)[-300:]))
            continue
        # one shard per run for the determinism comparison is enough; the verdict run (A) is sharded
        k = nsh if tag == "A" else 1
        dr = V.run_driver(exe, [zl, os.path.join(work, "t" + tag), k, seed, "quick", fams], timeout=3400, env=env)
        if dr.returncode != 0:
            crashed = True
            m = re.search(r"TIMEOUT while handling zone (\S+)", dr.stderr)
            if m:
                verdict.violation("timeout:" + m.group(1).split("#")[0], "loading / querying %s did not terminate in time (%s build)" % (m.group(1), variant))
            else:
                where = re.search(r"(ERROR: AddressSanitizer[^\n]*|runtime error[^\n]*|Assertion[^\n]*)", dr.stderr)
                verdict.violation("crash:%s" % (where.group(1)[:80] if where else "rc%d" % dr.returncode),
                                  "driver (%s build) died: %s" % (variant, dr.stderr[-1200:]))
        outs[tag] = sorted(glob.glob(os.path.join(work, "t%s.*.ndjson" % tag)))
    # ---- determinism across pre-fill patterns: identical logs (modulo sharding)
    def canon(paths):
        d = {}
        for p in paths:
            cur = None
            for ln in open(p):
                if ln.startswith('{"e":"Load"'):
                    m = re.match(r'\{"e":"Load","z":\d+,"name":"((?:[^"\\]|\\.)*)"', ln)
                    cur = m.group(1)
                    d[cur] = [re.sub(r'"z":\d+', '"z":0', ln)]
                elif cur is not None:
                    d[cur].append(re.sub(r'"z":\d+', '"z":0', ln))
        return d
    if not crashed and all(t in outs for t in "ABPZ"):
        # heap pre-fill: A vs B (same sanitizer build); stack pre-fill: P vs Z (same plain build). A and P are
        # not compared with each other: where the sanitizer build traps (ub = 1, reported on its own) a plain
        # build computes something.
        for ta, tb in (("A", "B"), ("P", "Z")):
            base, other = canon(outs[ta]), canon(outs[tb])
            for name in base:
                if base[name] != other.get(name):
                    a, b = base[name], other.get(name, [])
                    i = next((i for i in range(min(len(a), len(b))) if a[i] != b[i]), min(len(a), len(b)))
                    fault = "ancient-dst-zone" if name in ancient else re.sub(r"[-+]?\d{4,}", "N", name.split("#")[0].split(":", 1)[-1])[:40]
                    verdict.violation("nondeterministic:" + fault,
                                      "zone %s: outcome differs between pre-fill runs %s and %s at event %d: %s | %s"
                                      % (name, ta, tb, i, (a[i] if i < len(a) else "<end>")[:200], (b[i] if i < len(b) else "<end>")[:200]))
    # ---- the verdict run against the specification
    events = st = tr = 0
    classes = collections.Counter()
    loaded = 0
    samples = []
    for path, res in V.validate_shards("ZoneTrace", "ZoneTrace.cfg", outs.get("A", []), timeout=3400, heap="4g"):
        lines = open(path).read().splitlines()
        names = {}
        for ln in lines:
            if ln.startswith('{"e":"Load"'):
                m = re.match(r'\{"e":"Load","z":(\d+),"name":"((?:[^"\\]|\\.)*)"', ln)
                names[int(m.group(1))] = m.group(2)
                loaded += '"ok":1' in ln[-40:]
        events += len(lines)
        m = re.search(r'"CLASSES",\s*<<(.*?)>>\s*>>', res.out, re.S)
        if m:
            classes.update(re.findall(r'"(\w+)"', m.group(1)))
        if res.infra_failure or res.distinct != len(lines) + 1:
            if res.ok or res.verdict_violation:
                verdict.violation("trace-not-consumed", "trace %s not consumed: %s" % (path, res.tail(6)))
            else:
                verdict.infra_failure("TLC on %s: %s" % (os.path.basename(path), res.tail(6)))
            continue
        st += res.distinct
        tr += res.generated - 1
        for n in V.reject_lines(res):
            e = json.loads(lines[n - 1])
            zn = names.get(e.get("z"), "?")
            if e["e"] == "Load":
                e["bytes"] = "(%d bytes)" % len(e["bytes"])
            e["zone"] = zn
            fault = zn.split("#")[0].split(":", 1)[-1]
            fault = re.sub(r"[-+]?\d{4,}", "N", fault)
            if zn in ancient:
                fault = "ancient-dst-zone"
                if not e.get("ub") and e["e"] in ("Make", "Convert") and "cs" in e and zone.from_limbs(e["cs"][0]) > 2038:
                    fault = "ancient-dst-zone:civil-year-after-2038"      # not part of the listed finding
                if e.get("ub") and not tzgen.ancient_negative_last_year(open(dict(cases)[zn], "rb").read()):
                    fault = "ancient-dst-zone:last-year-not-negative"     # the listed overflow needs a negative last_year_
            verdict.violation("%s:%s:%s" % (e["e"], "ub" if e.get("ub") else "result", fault[:40]),
                              "mutated file %s: event rejected by ZoneTrace: %s" % (zn, json.dumps(e)[:300]), e)
        if len(samples) < 4:
            for ln in lines:
                if ln.startswith('{"e":"Load"'):
                    e = json.loads(ln)
                    e["bytes"] = "(%d bytes)" % len(e["bytes"])
                    samples.append(e)
                    break
    V.log("[%s] %d mutated files (%d loaded; classes %s), %d events, %d rejected" % (
        pid, len(cases), loaded, dict(classes), events, len(verdict.violations) + len(verdict.known)))
    ev = {"property_id": pid, "tier": tier, "seed": seed, "level": "fault_enumeration",
          "coverage": {"evaluations": len(cases) * 4, "distinct_nontrivial": len(cases),
                       "rule": "distinct mutated files (by content hash): every structural fault class of the TZif layout applied to 18 "
                               "skeleton files, full type tables, and seeded byte-level mutations; each file is non-trivial (differs from "
                               "its skeleton); each is executed in 4 builds/pre-fill patterns",
                       "samples": samples or ["(none)"], "files": len(cases), "loaded": loaded, "zone_classes": dict(classes),
                       "events_validated_by_tlc": events, "states": st, "transitions": tr, "exhaustive": False},
          "assumptions": ["ASan (+libstdc++ container annotations) / UBSan-trap observe memory errors and undefined operations on the executed inputs only",
                          "uninitialised reads are detected through differing outcomes under different pre-fills of stack and heap memory (no MSan runtime for libstdc++)",
                          "termination = a 40 s alarm per file", "TLC + TZif/Zone decide what each byte sequence demands of the loader"],
          "wall_s": time.time() - t0}
    return verdict.finish(ev)
