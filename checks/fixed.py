"""C15: fixed-offset zones and their names, exhaustively for every offset in [-90000, 90000].

TLC model-checks Fixed (round trip / abbreviation shape) on all 180001 offsets, and validates
(FixedTrace) what the real library does for every one of them - fixed_time_zone(o), its name,
load by name, lookups at 7 instants across int64, zero factory calls - plus mutated name strings.
"""
import glob
import json
import os
import random
import time

import verif as V


def canon(o):
    a = abs(o)
    return ("Fixed/UTC%s%02d:%02d:%02d" % ("-" if o < 0 else "+", a // 3600, a // 60 % 60, a % 60)).encode()


def names(seed, n):
    r = random.Random(seed)
    out = [b"UTC", b"UTC0", b"utc", b"UTC1", b"UTC+0", b"UTC00", b"", b"Fixed/UTC", b"Fixed/UTC+", b"Fixed/UTC+24:00:00",
           b"Fixed/UTC-24:00:00", b"Fixed/UTC+24:00:01", b"Fixed/UTC-24:00:01", b"Fixed/UTC+25:00:00", b"Fixed/UTC+00:00:00",
           b"Fixed/UTC-00:00:00", b"Fixed/UTC+00:99:99", b"Fixed/UTC+23:99:99", b"Fixed/UTC+99:99:99", b"Fixed/UTC+1:00:00",
           b"Fixed/UTC+001:00:00", b"Fixed/UTC+01:0:00", b"Fixed/UTC+01-00-00", b"Fixed/UTC 01:00:00", b"fixed/utc+01:00:00",
           b"Fixed/UTC+01:00:00 ", b" Fixed/UTC+01:00:00", b"Fixed/UTC+01:00:00\x00", b"Fixed/UTC+00:\x00\x00:00",
           b"Fixed/UTC+\x00\x00:00:00", b"Fixed/UTC+00:00:\x00\x00", b"Fixed/UTC+0\x00:00:00", b"Fixed/UTC+01:00", b"Fixed/UTC+0100",
           b"Fixed/UTC+01:00:00:00", b"Fixed/GMT+01:00:00", b"Fixed/UTC*01:00:00", b"Fixed/UTC+1A:00:00", b"Fixed/UTC+01:6A:00"]
    # valid spellings behind a prefix / suffix / directory that other parts of the loader strip or add
    for base in (b"UTC", b"UTC0", b"Fixed/UTC+01:00:00", b"Fixed/UTC-23:59:59", b"Fixed/UTC+00:00:00", b"Fixed/UTC+24:00:00"):
        out += [b"file:" + base, b":" + base, b"/" + base, b"./" + base, base + b"/", b"file:/" + base,
                b"Etc/" + base, b"posix/" + base, base.lower(), base.upper(), base + b"\n", b"\t" + base]
    alphabet = [bytes([b]) for b in b"0123456789:+-/ AZ\x00\xff.,"]
    for _ in range(n):
        o = r.choice([r.randrange(-90000, 90001), r.choice([1, -1, 59, -59, 60, 3600, 86399, 86400, -86400, 86340, 45296])])
        s = canon(o)
        k = r.random()
        i = r.randrange(len(s) + 1)
        if k < 0.1:
            out.append(s)
        elif k < 0.4 and i < len(s):
            out.append(s[:i] + r.choice(alphabet) + s[i + 1:])
        elif k < 0.6:
            out.append(s[:i] + r.choice(alphabet) + s[i:])
        elif k < 0.8 and i < len(s):
            out.append(s[:i] + s[i + 1:])
        else:   # digits > 59 / hour pushes
            t = bytearray(s)
            j = r.choice([10, 11, 13, 14, 16, 17])
            t[j] = r.choice(b"0123456789")
            out.append(bytes(t))
    seen, uniq = set(), []
    for s in out:
        if s not in seen:
            seen.add(s)
            uniq.append(s)
    return uniq


def run(pid, tier, seed):
    t0 = time.time()
    verdict = V.Verdict(pid)
    work = V.workdir("fixed")
    r = V.tlc("MCFixed", "MCFixed.cfg", workers=8, timeout=900)
    states, trans = r.distinct, r.generated
    if r.verdict_violation:
        verdict.violation("spec:MCFixed", "the specification violates its own round-trip/shape invariants:\n" + r.tail(20))
    elif not r.ok:
        verdict.infra_failure("MCFixed: " + r.tail(5))
    ns = names(seed, 3000 if tier == "quick" else 60000)
    open(os.path.join(work, "names.txt"), "w").write("".join(s.hex() + "\n" for s in ns))
    events = 0
    samples = []
    try:
        exe = V.build_driver("drv_fixed", "asan")
    except V.BuildError as e:
        verdict.infra_failure("build failed: %s" % str(e)[-400:])
        exe = None
    if exe:
        nsh = max(2, V.NCPU - 2)
        dr = V.run_driver(exe, [os.path.join(work, "t"), nsh, -90000, 90000, 1, os.path.join(work, "names.txt")], timeout=1800)
        if dr.returncode != 0:
            verdict.violation("driver-crash:rc%d" % dr.returncode, "drv_fixed died: " + dr.stderr[-400:])
        for path, res in V.validate_shards("FixedTrace", "FixedTrace.cfg", sorted(glob.glob(os.path.join(work, "t.*.ndjson"))), timeout=3000):
            lines = open(path).read().splitlines()
            events += len(lines)
            if res.infra_failure or res.distinct != len(lines) + 1:
                verdict.infra_failure("TLC on %s: %s" % (os.path.basename(path), res.tail(6)))
                continue
            states += res.distinct
            trans += res.generated - 1
            if len(samples) < 4 and lines:
                samples.append(json.loads(lines[len(lines) // 2]))
            for n in V.reject_lines(res):
                e = json.loads(lines[n - 1])
                if e["e"] == "FixedBig":
                    verdict.violation("Fixed:beyond-24h:64-bit-range%s" % (":ub" if e["ub"] else ""),
                                      "fixed_time_zone(%s limbs) rejected by FixedTrace: %s" % (e["ow"], lines[n - 1][:300]), e)
                elif e["e"] == "FixedLong":
                    verdict.violation("FixedName:over-long:%s" % ("ub" if e["ub"] else "accepted"),
                                      "a text of %s (limbs) characters beginning %r: FixedOffsetFromName ok=%d; rejected by FixedTrace" % (e["len"], bytes(e["head"]), e["fok"]), e)
                elif e["e"] == "Fixed":
                    o = e["o"]
                    cls = "zero" if o == 0 else "beyond-24h" if abs(o) > 86400 else "exactly-24h" if abs(o) == 86400 else \
                          "sub-minute" if abs(o) < 60 else "has-seconds" if o % 60 else "has-minutes" if o % 3600 else "whole-hours"
                    verdict.violation("Fixed:%s%s" % (cls, ":ub" if e["ub"] else ""), "fixed_time_zone(%d) rejected by FixedTrace: %s" % (o, lines[n - 1][:300]), e)
                else:
                    nm = bytes(e["name"])
                    verdict.violation("FixedName:%s" % ("embedded-NUL" if 0 in nm else "accepted" if e["fok"] else "rejected"),
                                      "name %r: FixedOffsetFromName ok=%d off=%d load ok=%d; rejected by FixedTrace" % (nm, e["fok"], e["foff"], e["ok"]), e)
    V.log("[%s] %d events, %d rejected" % (pid, events, len(verdict.violations) + len(verdict.known)))
    ev = {"property_id": pid, "tier": tier, "seed": seed, "level": "model_checking",
          "coverage": {"states": states, "transitions": trans, "traces_validated_against_impl": events,
                       "evaluations": events, "distinct_nontrivial": events,
                       "rule": "one event per integer offset in [-90000, 90000] (all 180001, each with 7 lookups spread over int64) plus "
                               "distinct mutated name strings; every event is non-trivial (distinct offset or distinct name)",
                       "samples": samples or ["(none)"], "exhaustive": True, "offsets": 180001, "names": len(ns)},
          "assumptions": ["TLC; module Fixed as the reading of the property; ASan+UBSan(trap) as observers",
                          "a data source that serves nothing stands for 'without any zone data'"],
          "wall_s": time.time() - t0}
    return verdict.finish(ev)
