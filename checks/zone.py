"""C01 C02 C03 C06 C10 C11 C14: conversions and transition queries of loaded zones.

impl -> spec: harness/drv_zone.cc loads shipped and generated TZif files through a replaced
zone_info_source_factory under ASan+UBSan-trap and logs every call; spec/ZoneTrace.tla decodes the
logged bytes itself (TZif!Decode) and judges every event with the declarative Zone operators.
spec -> impl and the model check of the properties on the specification: checks/smallworld.py.
"""
import collections
import glob
import json
import os
import re
import time

import tzgen
import verif as V
from checks import smallworld

FAM = {
    "C01": dict(fam="break", events=("Load", "Break")),
    "C02": dict(fam="make,fixed", events=("Make",)),
    "C03": dict(fam="rt", events=("RT", "RT2")),
    "C06": dict(fam="convert,fixed", events=("Convert",)),
    "C10": dict(fam="limits,fixed", events=("Break", "Make", "Convert", "RT", "RT2", "Next", "Prev")),
    "C11": dict(fam="trans", events=("Next", "Prev", "ChainEnd")),
    "C14": dict(fam="history,fixed", events=("Break", "Make", "Next", "Prev")),
}


def corpus(work, tier, seed, pid=None):
    ship = tzgen.shipped_zones(V.REPO)
    if tier == "quick":
        k = 10
        ship = [z for i, z in enumerate(ship) if i % k == seed % k]
        must = {"America/New_York", "Australia/Lord_Howe", "Africa/Monrovia", "Europe/Lisbon", "Pacific/Apia", "Asia/Kathmandu"}
        ship += [z for z in tzgen.shipped_zones(V.REPO) if z[0] in must and z not in ship]
        ngen = 100
    else:
        ngen = 400
    gen = tzgen.write_corpus(os.path.join(work, "gen"), seed, ngen)
    for name, data in tzgen.desig_zones():
        if "before-fall-back" in name and pid != "C01":
            continue        # the loader refuses this file (known finding of C01: every zic-class file loads); nothing else to ask of it
        pth = os.path.join(work, "gen", name.replace("/", "_") + ".tzif")
        open(pth, "wb").write(data)
        gen.append((name, pth))
    zl = os.path.join(work, "zones.txt")
    with open(zl, "w") as f:
        for name, path in ship + gen:
            f.write("%s\t%s\n" % (name, path))
    return zl, ship + gen, len(ship), len(gen)


def from_limbs(w):
    v = 0
    for x in reversed(w[1:]):
        v = v * 10000 + x
    return w[0] * v


def spec_panel(work, zones, tier, verdict):
    """spec -> impl: TLC (GenPanel) computes from the bytes where the rule-generated changes are."""
    k = 4 if tier == "quick" else 12
    parts = [zones[i::k] for i in range(k)]
    jobs = []
    for i, part in enumerate(parts):
        zin = os.path.join(work, "panel-in.%d.ndjson" % i)
        with open(zin, "w") as f:
            for name, path in part:
                f.write(json.dumps({"name": name, "bytes": list(open(path, "rb").read())}) + "\n")
        jobs.append((zin, os.path.join(work, "panel-out.%d.ndjson" % i)))
    import concurrent.futures as cf
    with cf.ThreadPoolExecutor(max_workers=k) as ex:
        rs = list(ex.map(lambda j: V.tlc("GenPanel", "GenPanel.cfg", env={"ZONES": j[0], "OUT": j[1], "PANEL": tier},
                                         timeout=1800, tag="panel-%s" % os.path.basename(j[1])), jobs))
    out = os.path.join(work, "panel.txt")
    n = 0
    with open(out, "w") as f:
        for (zin, zout), r in zip(jobs, rs):
            if r.rc != 0 or not os.path.exists(zout):
                verdict.infra_failure("GenPanel failed: " + r.tail(5))
                continue
            for ln in open(zout):
                o = json.loads(ln)
                if o["t"]:
                    ts = sorted(from_limbs(w) for w in o["t"])
                    n += len(ts)
                    f.write("%s\t%s\n" % (o["name"], " ".join(map(str, ts))))
    return out, n


# stage 2: which events of the traced test-suite run each property judges
SUITE_KINDS = {"C01": ("Break",), "C02": ("Make",), "C11": ("Next", "Prev"), "C10": ("Break", "Make", "Next", "Prev")}
ANCIENT_NEG = set()   # ... of them, those whose generated table ends in a negative year
ANCIENT = set()       # names of zones in the class of the known finding "ancient-dst-zone"


def classify(e, names):
    z = names.get(e.get("z"), "?")
    src = "suite" if z.startswith("suite/") else "shipped" if not z.startswith("gen/") else "generated"
    if z in ANCIENT:
        src = "ancient-dst-zone"
    if z.startswith("gen/desig-"):
        src = "designation-change-near-offset-change"
    k = e["e"] + (":subsecond" if e.get("sub") == 1 else "")
    if e.get("ub") == 1:
        if src == "ancient-dst-zone" and z in ANCIENT_NEG and "cs" in e and from_limbs(e["cs"][0]) > (1 << 62):
            # the listed finding: `cs.year() - last_year_` in MakeTime with a negative last_year_
            return "%s:%s:undefined-behaviour:civil-year-near-int64-max" % (k, src)
        return "%s:%s:undefined-behaviour" % (k, src)
    if src == "ancient-dst-zone" and e["e"] in ("Make", "Convert") and "cs" in e and from_limbs(e["cs"][0]) > 2038:
        # the listed finding concerns civil times up to the 2038 sentinel (the static stretch after the generated table);
        # later civil years are answered through the year shift and are right on the pinned tree
        return "%s:%s:wrong-result:civil-year-after-2038" % (k, src)
    return "%s:%s:wrong-result" % (k, src)


def run(pid, tier, seed):
    t0 = time.time()
    cfgd = FAM[pid]
    verdict = V.Verdict(pid)
    work = V.workdir("zone-" + pid)
    assumptions = ["TLC; the TLA+ modules Wide/Gregorian/PosixTZ/TZif/Zone as the reading of the TZif bytes",
                   "ASan + UBSan(trap) observe memory errors / undefined operations in the instrumented library",
                   "the driver's JSON/limb encoder and lib/tzgen.py (an encoder only; TLC re-decodes its bytes)",
                   "functional answers are demanded only for zones whose decoded data satisfy Zone!WellFormed "
                   "(the property's premise); other loadable files are checked for totality only"]
    # ---- 1. the property on the specification + spec -> impl replay (small worlds)
    sw = smallworld.run(pid, tier, seed, verdict)
    if pid == "C14":
        # the other hidden state: the name cache (a second load returns the first value without asking the data
        # source again; a failed name keeps failing) - 2-thread x 2-call behaviours of the Loader model replayed
        from checks import loader
        lst, lev, _ = loader.explore(pid, tier, seed, verdict, full=False)
        sw["name_cache_replay"] = {k: v for k, v in lst.items() if not isinstance(v, dict)}
        sw["states"] = sw.get("states", 0) + lst.get("states", 0)
        sw["transitions"] = sw.get("transitions", 0) + lst.get("transitions", 0)
        sw["replayed"] = sw.get("replayed", 0) + lst.get("replayed_behaviours", 0)
    fobs = (0, 0, 0)
    if pid == "C14":
        # format() keeps nothing from one call to the next: formats around the scratch-buffer rule, each repeated after an
        # unrelated call that needs a much larger buffer (the `hist` field of the Format event)
        from checks import format as fmtcheck
        import fmtgen
        fobs = fmtcheck.observe_formats(pid, verdict, work, fmtgen.WIDTHS + fmtgen.WIDE + fmtgen.ORDERS + fmtgen.REPO, tier, seed, "cache:Format")
        sw["states"] = sw.get("states", 0) + fobs[1]
        sw["transitions"] = sw.get("transitions", 0) + fobs[2]
        sw["format_history_events"] = fobs[0]
    # ---- 2. impl -> spec on real-range zones
    try:
        exe = V.build_driver("drv_zone", "asan")
    except V.BuildError as e:
        verdict.infra_failure("build failed: %s" % str(e)[-400:])
        return verdict.finish(_evidence(pid, tier, seed, t0, sw, 0, 0, 0, [], {}, assumptions))
    zl, zones, nship, ngen = corpus(work, tier, seed, pid)
    ANCIENT.clear()
    ANCIENT.update(n for n, p in zones if tzgen.is_ancient_dst(open(p, "rb").read()))
    ANCIENT_NEG.clear()
    ANCIENT_NEG.update(n for n, p in zones if tzgen.ancient_negative_last_year(open(p, "rb").read()))
    panel, npanel = spec_panel(work, zones, tier, verdict)
    nsh = max(2, V.NCPU - 2)
    dr = V.run_driver(exe, [zl, os.path.join(work, "t"), nsh, seed, tier, cfgd["fam"], panel], timeout=3000)
    shards = sorted(glob.glob(os.path.join(work, "t.*.ndjson")))
    if dr.returncode != 0:
        verdict.violation("driver-crash:rc%d" % dr.returncode,
                          "the driver died (assert / sanitizer report / crash): " + dr.stderr[-600:])
    # ---- 3. the repository's own tests as a workload (stage 2): every lookup they perform is judged too
    sst = {}
    if pid in SUITE_KINDS:
        from checks import suite
        szones, sst = suite.record(work, verdict, SUITE_KINDS[pid], cap=0 if tier == "thorough" else 150, seed=seed)
        shards += suite.shards(work, szones, 8)
    results = V.validate_shards("ZoneTrace", "ZoneTrace.cfg", shards, timeout=3400, heap="4g")
    events = distinct = st = tr = 0
    seen = set()
    samples = []
    classes = collections.Counter()
    for path, res in results:
        lines = open(path).read().splitlines()
        names = {}
        for ln in lines:
            if ln.startswith('{"e":"Load'):
                m = re.match(r'\{"e":"Load(?:Fixed)?","z":(\d+),"name":"((?:[^"\\]|\\.)*)"', ln)
                if m:
                    names[int(m.group(1))] = m.group(2)
                continue
            events += 1
            h = hash(ln)
            if h not in seen:
                seen.add(h)
                distinct += 1
        if len(samples) < 5 and len(lines) > 3:
            samples.append(json.loads(lines[-2]))
        m = re.search(r'"CLASSES",\s*<<(.*?)>>\s*>>', res.out, re.S)
        if m:
            classes.update(re.findall(r'"(\w+)"', m.group(1)))
        if res.infra_failure or res.distinct != len(lines) + 1:
            if res.verdict_violation or res.ok:
                verdict.violation("trace-not-consumed", "trace %s not consumed to the end: %s" % (path, res.tail(6)))
            else:
                verdict.infra_failure("TLC on %s: %s" % (os.path.basename(path), res.tail(6)))
            continue
        st += res.distinct
        tr += res.generated - 1
        for n in V.reject_lines(res):
            e = json.loads(lines[n - 1])
            if e["e"] == "Load":
                e["bytes"] = "(%d bytes)" % len(e["bytes"])
            e["zone"] = names.get(e.get("z"), "?")
            verdict.violation(classify(e, names), "event rejected by ZoneTrace: " + json.dumps(e)[:400], e)
    V.log("[%s] %d zones (%d shipped, %d generated; classes %s), %d events validated, %d rejected" % (
        pid, nship + ngen, nship, ngen, dict(classes), events, len(verdict.violations) + len(verdict.known)))
    ev = _evidence(pid, tier, seed, t0, sw, st, tr, len(shards), samples,
                   dict(events=events, distinct=distinct, zones=nship + ngen, shipped=nship, generated=ngen,
                        classes=dict(classes), spec_panel_instants=npanel), assumptions)
    if sst:
        ev["coverage"]["repository_test_suite_trace"] = sst
    return verdict.finish(ev)


def _evidence(pid, tier, seed, t0, sw, st, tr, traces, samples, cov, assumptions):
    c = {
        "states": sw.get("states", 0) + st, "transitions": sw.get("transitions", 0) + tr,
        "traces_validated_against_impl": traces + sw.get("replayed", 0),
        "evaluations": cov.get("events", 0) + sw.get("replayed_answers", 0),
        "distinct_nontrivial": cov.get("distinct", 0),
        "rule": "events = calls into the real library on shipped + generated zones (panels: every sampled transition "
                "+-2 s, 400-year shifts, int64 limits, gap/overlap seconds); distinct by full event text; an event "
                "is counted only for zones the specification classifies (see zone_classes)",
        "samples": samples or ["(none)"],
        "zones": cov.get("zones", 0), "zones_shipped": cov.get("shipped", 0), "zones_generated": cov.get("generated", 0),
        "zone_classes": cov.get("classes", {}),
        "spec_generated_panel_instants": cov.get("spec_panel_instants", 0),
        "small_world": sw,
        "exhaustive": False,
    }
    return {"property_id": pid, "tier": tier, "seed": seed, "level": "model_checking", "coverage": c,
            "assumptions": assumptions, "wall_s": time.time() - t0}
