"""C08 (format renders exactly what lookup reports) and C07 (format -> parse round trip).

spec -> impl: TLC (GenFormat) tells for every format string which stretches the specification
delegates to strftime; the driver records the C library's answer for exactly those, next to the
lookup() result and format()'s output; impl -> spec: TLC (FormatTrace) recomputes the output from
the lookup fields with Format!FormatOut.  C07: round trips through parse() for formats of the
lossless family (membership re-checked in TLA+: FormatTrace!Lossless)."""
import concurrent.futures as cf
import glob
import json
import os
import time

import fmtgen
import testcorpus
import verif as V


def delegated(work, fmts, verdict):
    k = 6
    parts = [fmts[i::k] for i in range(k)]
    jobs = []
    for i, part in enumerate(parts):
        fin = os.path.join(work, "gf-in.%d.ndjson" % i)
        with open(fin, "w") as f:
            for x in part:
                f.write(json.dumps({"fmt": list(x)}) + "\n")
        jobs.append((fin, os.path.join(work, "gf-out.%d.ndjson" % i)))
    with cf.ThreadPoolExecutor(max_workers=k) as ex:
        rs = list(ex.map(lambda j: V.tlc("GenFormat", "Empty.cfg", env={"FORMATS": j[0], "OUT": j[1]}, timeout=1800,
                                         tag="gf-" + os.path.basename(j[1])), jobs))
    out = {}
    for (fin, fout), r in zip(jobs, rs):
        if r.rc != 0 or not os.path.exists(fout):
            verdict.infra_failure("GenFormat failed: " + r.tail(6))
            continue
        for ln in open(fout):
            o = json.loads(ln)
            out[bytes(o["fmt"])] = [bytes(d) for d in o["del"]]
    return out


def observe_formats(pid, verdict, work, fmts, tier, seed, keyprefix):
    """format() on the given formats (drv_format's zones x instants x femtoseconds), every event judged by FormatTrace.
    Used by other properties that are observable through format() (C17: %a %A %j %u %w %U %W)."""
    sub = os.path.join(work, "fmtobs")
    os.makedirs(sub, exist_ok=True)
    dele = delegated(sub, fmts, verdict)
    inp = os.path.join(sub, "in.txt")
    open(inp, "w").write("".join("F %s %s\n" % (f.hex() or "-", " ".join(d.hex() for d in dele.get(f, []))) for f in fmts))
    try:
        exe = V.build_driver("drv_format", "asan")
    except V.BuildError as e:
        verdict.infra_failure("build failed: %s" % str(e)[-400:])
        return 0, 0, 0
    dr = V.run_driver(exe, [inp, os.path.join(sub, "t"), max(2, V.NCPU - 2), seed, "thorough"], timeout=3000,
                      env={"TZDIR": os.path.join(V.REPO, "testdata", "zoneinfo")})
    if dr.returncode != 0:
        verdict.violation("driver-crash:rc%d" % dr.returncode, "drv_format died (sanitizer report / crash): " + dr.stderr[-800:])
    events = states = trans = 0
    for path, res in V.validate_shards("FormatTrace", "FormatTrace.cfg", sorted(glob.glob(os.path.join(sub, "t.*.ndjson"))), timeout=3000):
        ls = open(path).read().splitlines()
        events += len(ls)
        if res.infra_failure or res.distinct != len(ls) + 1:
            verdict.infra_failure("TLC on %s: %s" % (os.path.basename(path), res.tail(8)))
            continue
        states += res.distinct
        trans += res.generated - 1
        for n in V.reject_lines(res):
            e = json.loads(ls[n - 1])
            ftxt = bytes(e["fmt"]).decode("latin-1")
            e["fmt_text"] = ftxt
            e["out_text"] = bytes(e.get("out", [])).decode("latin-1")
            verdict.violation("%s:%s:%s" % (keyprefix, "ub" if e["ub"] else "output", ftxt[:24]),
                              "format(%r) rejected by FormatTrace: %s" % (ftxt, json.dumps({k: v for k, v in e.items() if k not in ("fmt", "out", "env")})[:300]), e)
    return events, states, trans


def run(pid, tier, seed):
    t0 = time.time()
    verdict = V.Verdict(pid)
    work = V.workdir("format-" + pid)
    lines = []
    nf = 0
    if pid == "C08":
        fmts = fmtgen.formats(seed, 2500 if tier == "quick" else 60000)
        # + every format string the repository's own tests use (inputs only)
        hf = testcorpus.harvest(V.REPO)[0]
        fmts = fmts + [f for f in hf if f not in set(fmts)]
        dele = delegated(work, fmts, verdict)
        for f in fmts:
            lines.append("F %s %s" % (f.hex() or "-", " ".join(d.hex() for d in dele.get(f, []))))
        nf = len(fmts)
    else:
        fmts = fmtgen.lossless(seed, 1500 if tier == "quick" else 40000)
        # + the formats of the repository's tests: FormatTrace!Lossless decides which of them the property covers
        hf = testcorpus.harvest(V.REPO)[0]
        fmts = fmts + [f for f in hf if f not in set(fmts)]
        lines = ["L %s" % f.hex() for f in fmts]
        nf = len(fmts)
    inp = os.path.join(work, "in.txt")
    open(inp, "w").write("\n".join(lines) + "\n")
    states = trans = events = 0
    # the Format specification itself: every format of <= 3 (quick) / 4 (thorough) tokens
    mcfg = V.write_cfg(os.path.join(work, "MCFormat.cfg"), "SPECIFICATION Spec\nCONSTANT MaxTok = %d\nINVARIANTS Partition NoHidden Escapes CutFree\nCHECK_DEADLOCK FALSE\n"
                       % (4 if tier == "thorough" else 3))
    r = V.tlc("MCFormat", mcfg, workers=8, timeout=3000, heap="8g")
    states += r.distinct
    trans += r.generated
    if r.verdict_violation:
        verdict.violation("spec:MCFormat", "the Format specification violates one of its own laws:\n" + r.tail(25))
    elif not r.ok:
        verdict.infra_failure("MCFormat: " + r.tail(5))
    samples = []
    seen = set()
    try:
        exe = V.build_driver("drv_format", "asan")
    except V.BuildError as e:
        verdict.infra_failure("build failed: %s" % str(e)[-400:])
        exe = None
    if exe:
        dr = V.run_driver(exe, [inp, os.path.join(work, "t"), max(2, V.NCPU - 2), seed, tier], timeout=3000,
                          env={"TZDIR": os.path.join(V.REPO, "testdata", "zoneinfo")})
        if dr.returncode != 0:
            verdict.violation("driver-crash:rc%d" % dr.returncode, "drv_format died (sanitizer report / crash): " + dr.stderr[-800:])
        for path, res in V.validate_shards("FormatTrace", "FormatTrace.cfg", sorted(glob.glob(os.path.join(work, "t.*.ndjson"))), timeout=3000):
            ls = open(path).read().splitlines()
            events += len(ls)
            seen.update(hash(x) for x in ls)
            if res.infra_failure or res.distinct != len(ls) + 1:
                verdict.infra_failure("TLC on %s: %s" % (os.path.basename(path), res.tail(8)))
                continue
            states += res.distinct
            trans += res.generated - 1
            if len(samples) < 5 and ls:
                e = json.loads(ls[len(ls) // 2])
                e["fmt_text"] = bytes(e["fmt"]).decode("latin-1")
                samples.append(e)
            for n in V.reject_lines(res):
                e = json.loads(ls[n - 1])
                ftxt = bytes(e["fmt"]).decode("latin-1")
                e["fmt_text"] = ftxt
                if e["e"] == "Conc":
                    key = "Format:concurrent-callers:%s" % ftxt[:24]
                elif e["e"] == "Format":
                    e["out_text"] = bytes(e["out"]).decode("latin-1")
                    key = "Format:%s:%s" % ("ub" if e["ub"] else "output", ftxt[:24])
                else:
                    e["text_text"] = bytes(e["text"]).decode("latin-1")
                    what = "ub" if e["ub"] else "not-recovered" if e["ok"] else "parse-failed"
                    if what == "parse-failed" and abs(e["off"]) == 86400:
                        key = "RT7:parse-failed:zone-offset-exactly-24h"
                    elif what == "parse-failed" and "%e" in ftxt and e["cs"][2] < 10 and "%s" not in ftxt:
                        key = "RT7:parse-failed:%e-single-digit-day"
                    else:
                        key = "RT7:%s:%s" % (what, ftxt[:24])
                verdict.violation(key, "%s fmt=%r: rejected by FormatTrace: %s" % (e["e"], ftxt, json.dumps({k: v for k, v in e.items() if k not in ("fmt", "out", "text", "env")})[:300]), e)
    V.log("[%s] %d formats, %d events, %d rejected" % (pid, nf, events, len(verdict.violations) + len(verdict.known)))
    ev = {"property_id": pid, "tier": tier, "seed": seed, "level": "model_checking",
          "coverage": {"states": states, "transitions": trans, "traces_validated_against_impl": events,
                       "evaluations": events, "distinct_nontrivial": len(seen),
                       "rule": ("format strings = repository literals, every internal / delegated / dangling token, pairs of tokens around each scanner "
                                "cut point, random token sequences, random bytes; x 15 zones (real, fixed incl. sub-minute and +-24h) x 34 instants "
                                "(years 0, 1, 9999/10000, int64 limits) x femtosecond classes" if pid == "C08" else
                                "lossless formats (year, date by month/day | week+weekday | locale names, H, M, full-precision seconds, full-resolution "
                                "offset, or %s) in random order with random separators x zones x instants x femtosecond classes; parsed in a different zone") +
                               "; distinct by full event text",
                       "samples": samples or ["(none)"], "formats": nf, "exhaustive": False},
          "assumptions": ["TLC; module Format as the documented rendering; strftime is an uninterpreted function whose graph is recorded by the harness for the stretches the specification delegates",
                          "a stretch handed to strftime that contains NUL has no recorded answer (the format is then undetermined: memory safety only); NUL in ordinary text is judged", "ASan+UBSan(trap) observe the memory-safety clause on executed inputs"],
          "wall_s": time.time() - t0}
    return verdict.finish(ev)
