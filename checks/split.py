"""C18: sub-second time points floor toward the past (split_seconds, lookup/convert/format on
time_point<D>, parse/join_seconds into coarse and narrow representations)."""
import glob
import json
import os
import time

import verif as V


def run(pid, tier, seed):
    t0 = time.time()
    verdict = V.Verdict(pid)
    work = V.workdir("split")
    r = V.tlc("MCSplit", "MCSplit.cfg", workers=8, timeout=900)
    states, trans = r.distinct, r.generated
    if r.verdict_violation:
        verdict.violation("spec:MCSplit", "Split violates its own laws:\n" + r.tail(20))
    elif not r.ok:
        verdict.infra_failure("MCSplit: " + r.tail(5))
    events = 0
    samples = []
    seen = set()
    try:
        exe = V.build_driver("drv_split", "ubsan")
    except V.BuildError as e:
        verdict.infra_failure("build failed: %s" % str(e)[-400:])
        exe = None
    if exe:
        dr = V.run_driver(exe, [os.path.join(work, "t"), max(2, V.NCPU - 2), seed, tier], timeout=1800)
        if dr.returncode != 0:
            verdict.violation("driver-crash:rc%d" % dr.returncode, "drv_split died: " + dr.stderr[-400:])
        for path, res in V.validate_shards("SplitTrace", "SplitTrace.cfg", sorted(glob.glob(os.path.join(work, "t.*.ndjson"))), timeout=3000):
            lines = open(path).read().splitlines()
            events += len(lines)
            seen.update(hash(x) for x in lines)
            if res.infra_failure or res.distinct != len(lines) + 1:
                verdict.infra_failure("TLC on %s: %s" % (os.path.basename(path), res.tail(6)))
                continue
            states += res.distinct
            trans += res.generated - 1
            if len(samples) < 5 and lines:
                samples.append(json.loads(lines[len(lines) // 2]))
            for n in V.reject_lines(res):
                e = json.loads(lines[n - 1])
                neg = e.get("c", e.get("sec", [1]))[0] < 0
                if e["e"] == "ParseLimit":
                    verdict.violation("ParseLimit:%s:delta%+d%s" % ("upper" if e["hi"] else "lower", e["delta"], ":ub" if e["ub"] else ""),
                                      "rejected by SplitTrace: " + lines[n - 1][:300], e)
                    continue
                verdict.violation("%s:num%d:%s%s" % (e["e"], e["num"], "before-epoch" if neg else "after-epoch", ":ub" if e["ub"] else ""),
                                  "rejected by SplitTrace: " + lines[n - 1][:300], e)
    V.log("[%s] %d events, %d rejected" % (pid, events, len(verdict.violations) + len(verdict.known)))
    ev = {"property_id": pid, "tier": tier, "seed": seed, "level": "model_checking",
          "coverage": {"states": states, "transitions": trans, "traces_validated_against_impl": events,
                       "evaluations": events, "distinct_nontrivial": len(seen),
                       "rule": "13 duration types (int64 nano/micro/milli/seconds/femto/third-seconds, int32 minutes/hours/milli, int8/int16 "
                               "seconds/minutes) x counts at every remainder class on both sides of the epoch, at the representation limits, "
                               "and seeded random counts; joins at (seconds, femtoseconds) around the epoch and around each representation's "
                               "limits; distinct by full event text",
                       "samples": samples or ["(none)"], "exhaustive": False},
          "assumptions": ["TLC; module Split (floor laws) over exact integers; UBSan trap mode",
                          "sub-second targets are only constrained inside their own range (time_zone.h TODO #199)"],
          "wall_s": time.time() - t0}
    return verdict.finish(ev)
