"""C04 / C05 / C17: civil-time construction, arithmetic and weekday functions.

1. TLC model-checks spec/MCCivil (the properties on the specification itself, on segments of the
   146097-day cycle: all of it in the thorough tier).
2. harness/drv_civil.cc drives the real code under UBSan-trap; spec/CivilTrace.tla validates
   every event (the specification is the only oracle).
"""
import glob
import json
import os
import time

import verif as V

FAM = {
    "C04": dict(fam="ctor", inv=["ClosedForms", "Chained", "Construct"], events=("Ctor", "Conv")),
    "C05": dict(fam="arith", inv=["Inverses"], events=("Add", "Sub", "Diff", "Cmp")),
    "C17": dict(fam="wday", inv=["ClosedForms", "Chained", "Weekdays"], events=("Wday", "NextWd", "PrevWd")),
}


def nontrivial(e):
    k = e["e"]
    if k == "Ctor":
        # some field really had to be carried / aligned: the result differs from the arguments
        a, r = e["a"], e["r"]
        return e["ub"] == 1 or a[0] != r[0] or any(a[i] != [1, r[i]] and not (r[i] == 0 and a[i] == [1]) for i in range(1, 6))
    if k in ("Add", "Sub"):
        return e["n"] != [1]
    if k == "Diff":
        return e["a"] != e["b"]
    if k == "Cmp":
        return e["a"][0] == e["b"][0]          # same year: decided by a lower field
    if k == "Conv":
        return e["a"] != e["r"]
    return True


def classify(e):
    """Stable class key of a rejected event (used for known-findings matching)."""
    k = e["e"]
    if e.get("ub") == 1:
        return "%s:tag%s:undefined-behaviour" % (k, e.get("tag", ""))
    return "%s:tag%s:wrong-result" % (k, e.get("tag", e.get("ta", "")))


def run(pid, tier, seed):
    t0 = time.time()
    cfgd = FAM[pid]
    verdict = V.Verdict(pid)
    work = V.workdir("civil-" + pid)
    assumptions = ["TLC and the TLA+ module Wide (exact integers; model-checked against native ints in MCWide)",
                   "UBSan trap mode flags every undefined arithmetic operation in the instrumented call",
                   "the driver's JSON/limb encoder"]
    # ---- 0. the number domain itself
    r = V.tlc("MCWide", "MCWide.cfg", workers=4, timeout=300)
    mc_states, mc_trans = r.distinct, r.generated
    if r.verdict_violation:
        verdict.violation("spec:MCWide", "Wide arithmetic disagrees with native integers:\n" + r.tail(15))
    elif not r.ok:
        verdict.infra_failure("MCWide: " + r.tail(5))
    # ---- 1. model check the property on the specification
    if tier == "thorough":
        seglen, segstep = 600, 1
    else:
        seglen, segstep = 12, 97 + seed % 5
    cfg = V.write_cfg(os.path.join(work, "MCCivil.cfg"),
                      "SPECIFICATION Spec\nCONSTANTS SegLen = %d\n SegStep = %d\n Era0 = 2000\nINVARIANTS %s\nCHECK_DEADLOCK FALSE\n"
                      % (seglen, segstep, " ".join(cfgd["inv"])))
    r = V.tlc("MCCivil", cfg, workers=V.NCPU, timeout=3000 if tier == "thorough" else 600, heap="6g")
    mc_states += r.distinct
    mc_trans += r.generated
    if r.verdict_violation:
        verdict.violation("spec:MCCivil", "the specification itself violates the property:\n" + r.tail(25))
    elif not r.ok:
        verdict.infra_failure("MCCivil: " + r.tail(5))
    V.log("[%s] MCCivil: %d states in %.0fs" % (pid, r.distinct, r.wall))
    # ---- 2. drive the implementation
    try:
        exe = V.build_driver("drv_civil", "ubsan")
    except V.BuildError as e:
        verdict.infra_failure("build failed: %s" % str(e)[-400:])
        return verdict.finish(_evidence(pid, tier, seed, t0, mc_states, mc_trans, 0, 0, 0, [], assumptions))
    nsh = max(2, V.NCPU - 2)
    dr = V.run_driver(exe, [os.path.join(work, "t"), nsh, seed, tier, cfgd["fam"]], timeout=1800)
    shards = sorted(glob.glob(os.path.join(work, "t.*.ndjson")))
    if dr.returncode != 0:
        # a crash outside a guarded call: the last flushed lines tell where; report as violation of totality
        verdict.violation("driver-crash:rc%d" % dr.returncode, "driver died: " + dr.stderr[-300:])
    # ---- 3. validate every event against the specification
    results = V.validate_shards("CivilTrace", "CivilTrace.cfg", shards, timeout=3000)
    events = distinct = 0
    seen = set()
    samples = []
    st = tr = 0
    for path, res in results:
        lines = open(path).read().splitlines()
        events += len(lines)
        for ln in lines:
            h = hash(ln)
            if h not in seen:
                seen.add(h)
                if nontrivial(json.loads(ln)):
                    distinct += 1
        if len(samples) < 6 and lines:
            samples.append(json.loads(lines[len(lines) // 2]))
        if res.infra_failure or res.distinct != len(lines) + 1:
            if res.verdict_violation or res.ok:
                verdict.violation("trace-not-consumed", "trace %s not consumed to the end: %s" % (path, res.tail(6)))
            else:
                verdict.infra_failure("TLC on %s: %s" % (os.path.basename(path), res.tail(6)))
            continue
        st += res.distinct
        tr += res.generated - 1
        for n in V.reject_lines(res):
            e = json.loads(lines[n - 1])
            verdict.violation(classify(e), "event rejected by CivilTrace: " + lines[n - 1][:300], e)
    fobs = None
    if pid == "C17":
        # the same functions as format() uses them: %a %A %j %u %w %U %W on instants up to the int64 limits
        from checks import format as fmtcheck
        wf = [b"%a", b"%A", b"%j", b"%u", b"%w", b"%U", b"%W", b"%Y %a %j", b"%A, day %j, week %U/%W, weekday %u/%w of %Y-%m-%d", b"%G-W%V-%u %a",
              b"%W %U", b"%U %W", b"%W|%U|%W|%U", b"%Y-W%W / %Y-U%U", b"%w %u %w", b"%U%W%U",
              b"%^a", b"%^A", b"%-j", b"%_j", b"%^a %-j", b"%-u|%_w", b"%5a %010j", b"%Ou %OU %OW %Ow"]
        fobs = fmtcheck.observe_formats(pid, verdict, work, wf, tier, seed, "FormatWeekday")
        events += fobs[0]
        st += fobs[1]
        tr += fobs[2]
    V.log("[%s] %d events validated, %d rejected" % (pid, events, len(verdict.violations) + len(verdict.known)))
    ev = _evidence(pid, tier, seed, t0, mc_states + st, mc_trans + tr, len(shards), events, distinct, samples, assumptions)
    ev["coverage"]["exhaustive"] = False
    ev["coverage"]["model_check"] = {"module": "MCCivil", "SegLen": seglen, "SegStep": segstep,
                                     "invariants": cfgd["inv"], "whole_cycle": segstep == 1}
    return verdict.finish(ev)


def _evidence(pid, tier, seed, t0, states, trans, traces, events, distinct, samples, assumptions):
    return {
        "property_id": pid, "tier": tier, "seed": seed, "level": "model_checking",
        "coverage": {
            "states": max(states, 0), "transitions": max(trans, 0),
            "traces_validated_against_impl": traces,
            "evaluations": events, "distinct_nontrivial": distinct,
            "rule": "events = calls into the real library logged by drv_civil (bases: days of the 400-year cycle "
                    "replicated over 19 eras up to the int64 year limits, biased 64-bit perturbations); an event is "
                    "non-trivial when normalisation/arithmetic had to change a field (Ctor: result differs from the "
                    "arguments; Add/Sub: n != 0; Diff: a != b; Cmp: same year), distinct by full event text",
            "samples": samples or ["(no events)"],
        },
        "assumptions": assumptions,
        "wall_s": time.time() - t0,
    }
