"""C09: parse() accepts only well-formed in-range input and returns the denoted instant.

(format, input) pairs - rendered from chosen field values, with one field pushed just outside its
range or a non-existent date, single-character edits, int64 limits, directed corner cases, random
bytes - go through the real detail::parse under ASan+UBSan-trap; TLC (ParseTrace) replays each
call with Parse!ParseResult (strptime as a recorded uninterpreted function for the specifiers the
specification delegates, exported by GenParse) and compares verdict, instant and femtoseconds."""
import concurrent.futures as cf
import glob
import json
import os
import time

import parsegen
import random
import testcorpus
import verif as V


def delegated(work, fmts, verdict):
    k = 4
    jobs = []
    for i in range(k):
        fin = os.path.join(work, "gp-in.%d.ndjson" % i)
        with open(fin, "w") as f:
            for x in fmts[i::k]:
                f.write(json.dumps({"fmt": list(x)}) + "\n")
        jobs.append((fin, os.path.join(work, "gp-out.%d.ndjson" % i)))
    with cf.ThreadPoolExecutor(max_workers=k) as ex:
        rs = list(ex.map(lambda j: V.tlc("GenParse", "Empty.cfg", env={"FORMATS": j[0], "OUT": j[1]}, timeout=1800, tag="gp-" + os.path.basename(j[1])), jobs))
    out = {}
    for (fin, fout), r in zip(jobs, rs):
        if r.rc != 0 or not os.path.exists(fout):
            verdict.infra_failure("GenParse failed: " + r.tail(8))
            continue
        for ln in open(fout):
            o = json.loads(ln)
            out[bytes(o["fmt"])] = [bytes(d) for d in o["del"]]
    return out


def run(pid, tier, seed):
    t0 = time.time()
    verdict = V.Verdict(pid)
    work = V.workdir("parse")
    prs = parsegen.pairs(seed, 6000 if tier == "quick" else 150000)
    # + the (format, input) pairs of the repository's own tests, and its formats against its inputs (inputs only)
    hf, hp, hi = testcorpus.harvest(V.REPO)
    rr = random.Random(seed)
    prs = prs + hp + [(f, rr.choice(hi)) for f in hf for _ in range(2 if tier == "quick" else 12)]
    # + civil times around real transitions x seconds 59/60, each tried in every zone of the driver
    tps = parsegen.transition_pairs(seed, 0.3 if tier == "quick" else 1.0)
    fmts = sorted(set(f for f, _ in prs + tps if 0 not in f))
    dele = delegated(work, fmts, verdict)
    with open(os.path.join(work, "in.txt"), "w") as f:
        for fm, s in prs:
            f.write("P %s %s %s\n" % (fm.hex() or "-", s.hex() or "-", " ".join(d.hex() for d in dele.get(fm, []))))
        for fm, s in tps:
            f.write("A %s %s %s\n" % (fm.hex() or "-", s.hex() or "-", " ".join(d.hex() for d in dele.get(fm, []))))
    states = trans = events = 0
    samples = []
    acc = rej = 0
    # the field grammar of the Parse specification against its declarative statement, all short inputs
    mcfg = V.write_cfg(os.path.join(work, "MCParse.cfg"), "SPECIFICATION Spec\nCONSTANT MaxLen = %d\nINVARIANTS MonthLaw HourLaw SecLaw E4YLaw YearLaw OffLaw\nCHECK_DEADLOCK FALSE\n"
                       % (6 if tier == "thorough" else 4))
    r = V.tlc("MCParse", mcfg, workers=8, timeout=3000, heap="8g")
    states += r.distinct
    trans += r.generated
    if r.verdict_violation:
        verdict.violation("spec:MCParse", "the Parse specification violates its own field-grammar laws:\n" + r.tail(25))
    elif not r.ok:
        verdict.infra_failure("MCParse: " + r.tail(5))
    try:
        exe = V.build_driver("drv_parse", "asan")
    except V.BuildError as e:
        verdict.infra_failure("build failed: %s" % str(e)[-400:])
        exe = None
    if exe:
        dr = V.run_driver(exe, [os.path.join(work, "in.txt"), os.path.join(work, "t"), max(2, V.NCPU - 2), seed], timeout=3000,
                          env={"TZDIR": os.path.join(V.REPO, "testdata", "zoneinfo")})
        if dr.returncode != 0:
            verdict.violation("driver-crash:rc%d" % dr.returncode, "drv_parse died (sanitizer report / crash): " + dr.stderr[-800:])
        for path, res in V.validate_shards("ParseTrace", "ParseTrace.cfg", sorted(glob.glob(os.path.join(work, "t.*.ndjson"))), timeout=3000, heap="4g"):
            ls = open(path).read().splitlines()
            if res.infra_failure or res.distinct != len(ls) + 1:
                verdict.infra_failure("TLC on %s: %s" % (os.path.basename(path), res.tail(8)))
                continue
            states += res.distinct
            trans += res.generated - 1
            for ln in ls:
                if ln.startswith('{"e":"Parse"'):
                    events += 1
                    if '"ok":1' in ln:
                        acc += 1
                    else:
                        rej += 1
            if len(samples) < 5:
                e = json.loads(ls[-1])
                e["fmt_text"] = bytes(e["fmt"]).decode("latin-1")
                e["input_text"] = bytes(e["input"]).decode("latin-1")
                e["env"] = "(%d entries)" % len(e["env"])
                samples.append(e)
            for n in V.reject_lines(res):
                e = json.loads(ls[n - 1])
                ft, it = bytes(e["fmt"]).decode("latin-1"), bytes(e["input"]).decode("latin-1")
                e["env"] = "(%d entries)" % len(e["env"])
                key = "Parse:%s:%s" % ("ub" if e["ub"] else "accepted" if e["ok"] else "rejected", ft[:28])
                verdict.violation(key, "parse(%r, %r) zone=%s ok=%d t=%s: rejected by ParseTrace" % (ft, it, e["z"] or e["zoff"], e["ok"], e["t"]), e)
    V.log("[%s] %d pairs (%d accepted by the code, %d rejected), %d violations" % (pid, events, acc, rej, len(verdict.violations) + len(verdict.known)))
    ev = {"property_id": pid, "tier": tier, "seed": seed, "level": "model_checking",
          "coverage": {"states": states, "transitions": trans, "traces_validated_against_impl": events,
                       "evaluations": events, "distinct_nontrivial": len(prs),
                       "rule": "distinct (format, input) pairs: 27 format templates (internal and delegated specifiers) rendered from chosen field values; "
                               "the same with one field just outside its range or a non-existent date; single-character insert/delete/replace and "
                               "whitespace variants; years / %s at the int64 limits with offsets pushing across; ~130 directed corner cases; random byte pairs",
                       "samples": samples or ["(none)"], "accepted_by_code": acc, "rejected_by_code": rej, "exhaustive": False},
          "assumptions": ["TLC; module Parse as the documented field grammar; strptime is an uninterpreted function recorded at every input position "
                          "for the specifiers the specification delegates; outcomes that depend on strptime's own bookkeeping (unstable fields, week "
                          "numbers mixed with delegated specifiers) and pairs containing NUL are left open",
                          "ASan+UBSan(trap) observe the undefined-behaviour clause on executed inputs"],
          "wall_s": time.time() - t0}
    return verdict.finish(ev)
