"""C19: zone-name resolution and the UTC fallback.

A fixture directory tree (valid zones, garbage, truncated, leap-second, empty, directory, unreadable
file) is built under build/; one child process per environment (TZDIR x TZ x LOCALTIME) resolves a list
of names (relative, absolute, file:-prefixed, ':'-prefixed, fixed-offset, UTC, empty, ...) and calls
local_time_zone(); every row is decided by TLC (NamesTrace) from the environment values and the bytes
the harness read at the candidate paths (Names!PathOf / LocalName, TZif!Decode, Zone!Break)."""
import glob
import itertools
import json
import os
import shutil
import subprocess
import time

import tzgen
import verif as V


def build_fixture(root):
    shutil.rmtree(root, ignore_errors=True)
    tz = os.path.join(root, "tzdir")
    os.makedirs(os.path.join(tz, "America"), exist_ok=True)
    os.makedirs(os.path.join(tz, "Dir"), exist_ok=True)
    src = os.path.join(V.REPO, "testdata", "zoneinfo")
    shutil.copy(os.path.join(src, "America", "New_York"), os.path.join(tz, "America", "New_York"))
    shutil.copy(os.path.join(src, "Asia", "Tokyo"), os.path.join(tz, "X"))
    shutil.copy(os.path.join(src, "Europe", "London"), os.path.join(tz, "localtime"))
    shutil.copy(os.path.join(src, "Australia", "Sydney"), os.path.join(root, "abs_sydney"))
    good = open(os.path.join(src, "Europe", "Paris"), "rb").read()
    open(os.path.join(tz, "Truncated"), "wb").write(good[: len(good) // 2])
    # truncated inside the footer: the closing newline missing, cut right after the opening newline, no footer at all
    # data appended after the footer ("future changes to the format may append more data"): still a valid file
    open(os.path.join(tz, "Appended1"), "wb").write(good + b"\n")
    open(os.path.join(tz, "Appended2"), "wb").write(good + b"more data from the future\x00\xff\n" * 7)
    open(os.path.join(tz, "TruncNL"), "wb").write(good[:-1])
    fstart = good.rindex(b"\n", 0, len(good) - 1)
    open(os.path.join(tz, "TruncFooter"), "wb").write(good[:fstart + 1])
    open(os.path.join(tz, "TruncNoFooter"), "wb").write(good[:fstart])
    open(os.path.join(tz, "TruncMidRule"), "wb").write(good[:fstart + 5])
    # a second zone directory and names used only after the process changed its environment (phase 2)
    tz2 = os.path.join(root, "tzdir2")
    os.makedirs(os.path.join(tz, "P2"), exist_ok=True)
    os.makedirs(os.path.join(tz2, "P2"), exist_ok=True)
    shutil.copy(os.path.join(src, "Asia", "Tokyo"), os.path.join(tz, "P2", "OnlyIn1"))
    shutil.copy(os.path.join(src, "America", "New_York"), os.path.join(tz, "P2", "Both"))
    shutil.copy(os.path.join(src, "Australia", "Sydney"), os.path.join(tz2, "P2", "OnlyIn2"))
    shutil.copy(os.path.join(src, "Europe", "London"), os.path.join(tz2, "P2", "Both"))
    shutil.copy(os.path.join(src, "Europe", "Paris"), os.path.join(tz2, "P2", "Local"))
    shutil.copy(os.path.join(src, "Asia", "Kolkata"), os.path.join(tz, "P2", "Local"))
    # symbolic links, as distributions install them (relative, absolute, dangling, to a directory)
    os.makedirs(os.path.join(tz, "US"), exist_ok=True)
    for link, target in (("US/Eastern", "../America/New_York"), ("AbsLink", os.path.join(tz, "X")), ("Dangling", "nowhere"), ("DirLink", "America")):
        try:
            os.symlink(target, os.path.join(tz, link))
        except OSError:
            pass
    open(os.path.join(tz, "Garbage"), "wb").write(b"this is not a zone file\n" * 10)
    open(os.path.join(tz, "Empty"), "wb").write(b"")
    types = [(-18000, False, b"EST"), (-14400, True, b"EDT")]
    trans = [(100000000, 1), (110000000, 0)]
    open(os.path.join(tz, "RightSlim"), "wb").write(tzgen.tzif(2, trans, types, b"EST5", leaps=[(78796800, 1), (94694401, 2)]))
    open(os.path.join(tz, "RightFat"), "wb").write(tzgen.tzif(2, trans, types, b"EST5", fat=True, leaps=[(78796800, 1)]))
    open(os.path.join(tz, "BadFooter"), "wb").write(tzgen.tzif(2, trans, types, b"EST5EDT,M3.2.0"))
    open(os.path.join(tz, "V1"), "wb").write(tzgen.tzif(1, trans, types))
    p = os.path.join(tz, "Unreadable")
    shutil.copy(os.path.join(src, "Asia", "Tokyo"), p)
    os.chmod(p, 0)
    for d, _, _ in os.walk(root):
        os.chmod(d, 0o755)
    return tz


def run(pid, tier, seed):
    t0 = time.time()
    verdict = V.Verdict(pid)
    work = V.workdir("names")
    # the fixture must be reachable by an unprivileged child: build it under /tmp-like world-readable path inside build/
    os.chmod(V.BUILD, 0o755)
    os.chmod(os.path.join(V.BUILD, "work"), 0o755)
    os.chmod(work, 0o755)
    fx = os.path.join(work, "fixture")
    tzdir = build_fixture(fx)
    abs_syd = os.path.join(fx, "abs_sydney")
    names = [b"America/New_York", b"X", b"file:X", b"file:America/New_York", abs_syd.encode(), b"file:" + abs_syd.encode(),
             b"Nope/Missing", b"", b"Dir", b"Unreadable", b"Truncated", b"Appended1", b"Appended2", b"TruncNL", b"TruncFooter", b"TruncNoFooter", b"TruncMidRule", b"Garbage", b"Empty", b"RightSlim", b"RightFat", b"BadFooter", b"V1",
             b":X", b":America/New_York", b"UTC", b"UTC0", b"Fixed/UTC+01:00:00", b"Fixed/UTC-23:59:59", b"Fixed/UTC+24:00:01",
             b"file:", b"file:/", b"/", b"/nonexistent/zone", b"file:UTC", b"localtime", b"x/../X", b"America/New_York/", b"X ", b" X",
             b"US/Eastern", b"file:US/Eastern", b"AbsLink", b"Dangling", b"DirLink", b"America//New_York", b"./X", b"X/.", b"America/./New_York", b"A" * 5000, b"X" + b"/" * 300, b"..", b".", b"America", b"America/",
             (tzdir + "/X").encode(), b"file:" + (tzdir + "/Garbage").encode(), b"Etc/UTC", b"posixrules"]
    nf = os.path.join(work, "names.txt")
    open(nf, "w").write("".join(n.hex() + "\n" for n in names))
    try:
        exe = V.build_driver("drv_names", "asan")
    except V.BuildError as e:
        verdict.infra_failure("build failed: %s" % str(e)[-400:])
        return verdict.finish(_ev(pid, tier, seed, t0, 0, 0, 0, [], 0))
    os.chmod(os.path.dirname(exe), 0o755)
    os.chmod(exe, 0o755)
    # relative values of TZDIR are resolved against the process's working directory like any other path (the driver runs in `fx`)
    rel = os.path.relpath(tzdir, fx)
    tzdirs = [None, "", tzdir, os.path.join(fx, "no_such_dir"), rel, "./" + rel, "no_such_rel_dir"]
    tzs = [None, "", "X", ":X", "localtime", ":localtime", "Nope/Missing", ":", "::X", "Fixed/UTC+02:00:00", abs_syd]
    # (LOCALTIME is used verbatim: a leading ':' belongs to the name)
    lts = [None, abs_syd, os.path.join(fx, "missing"), "X", "", ":" + abs_syd, ":X", "file:X"]
    envs = []
    for td in tzdirs:
        envs.append((td, None, None))
    for tz_, lt in itertools.product(tzs, lts):
        if lt is not None and tz_ not in ("localtime", ":localtime", None):
            continue
        for td in ((tzdir, None, rel) if tier == "quick" else tzdirs):
            envs.append((td, tz_, lt))
    envs = list(dict.fromkeys(envs))
    out = os.path.join(work, "t.0.ndjson")
    global NCLOSED
    nproc = 0
    nclosed = 0
    with open(out, "w") as f:
        for td, tz_, lt in envs:
            e = {k: v for k, v in os.environ.items() if k not in ("TZDIR", "TZ", "LOCALTIME")}
            e["ASAN_OPTIONS"] = "detect_leaks=0"
            if td is not None:
                e["TZDIR"] = td
            if tz_ is not None:
                e["TZ"] = tz_
            if lt is not None:
                e["LOCALTIME"] = lt
            # the state of the process's descriptor table is part of the environment: every second process runs
            # with descriptor 0 closed (the loader's first open() then returns 0), half of those load a name first
            if nproc % 2 == 1:
                e["VT_CLOSE_STDIN"] = "1"
                nclosed += 1
                if nproc % 4 == 3:
                    e["VT_NO_LOCAL"] = "1"
            r = subprocess.run([exe, nf, "--drop-privileges"], env=e, cwd=fx, stdout=subprocess.PIPE, stderr=subprocess.PIPE, text=True, timeout=300)
            nproc += 1
            if r.returncode != 0:
                if r.returncode in (3, 4):
                    verdict.infra_failure("drv_names: " + r.stderr[-200:])
                else:
                    verdict.violation("driver-crash:rc%d" % r.returncode, "drv_names died in env %r: %s" % ((td, tz_, lt), r.stderr[-400:]))
                continue
            f.write(r.stdout)
    # ---- a long history of failed loads (names that resolve to directories, devices, missing files - each a cache key of its
    # own) in a process that may hold few descriptors, then names never asked before: every row is judged as usual
    many = [b"America" + b"/" * k for k in range(1, 60)] + [b"Dir" + b"/" * k for k in range(1, 60)] + [b"/tmp", b"/", b"/usr"] + \
           [b"Nope/Missing%d" % k for k in range(40)] + [b"Garbage", b"Truncated", b"Unreadable"] + [b"./" * k + b"Dir" for k in range(1, 40)]
    nf_fd = os.path.join(work, "names_fd.txt")
    open(nf_fd, "w").write("".join(n.hex() + "\n" for n in many + [b"Europe/Paris", b"America/New_York", b"X", b"file:X", b"Asia/Tokyo"]))
    with open(out, "a") as f:
        e = {k: v for k, v in os.environ.items() if k not in ("TZDIR", "TZ", "LOCALTIME")}
        e.update({"ASAN_OPTIONS": "detect_leaks=0", "TZDIR": tzdir, "VT_FD_LIMIT": "48", "VT_NO_LOCAL": "1"})
        r = subprocess.run([exe, nf_fd, "--drop-privileges"], env=e, cwd=fx, stdout=subprocess.PIPE, stderr=subprocess.PIPE, text=True, timeout=300)
        nproc += 1
        if r.returncode != 0:
            verdict.violation("driver-crash:rc%d" % r.returncode, "drv_names died in the descriptor-limited process: %s" % r.stderr[-400:])
        else:
            f.write(r.stdout)
    # ---- processes that change their environment between loads (setenv/unsetenv of TZDIR, TZ, LOCALTIME): the
    # value in force at the time of each call decides; phase-2 names were never asked for before (the name
    # cache legitimately keeps earlier answers)
    tzdir2 = os.path.join(fx, "tzdir2")
    names2 = [b"P2/OnlyIn1", b"P2/OnlyIn2", b"P2/Both", b"P2/Missing", b"file:P2/Both"]
    nf1 = os.path.join(work, "names_p1.txt")
    open(nf1, "w").write("".join(n.hex() + "\n" for n in [b"X", b"America/New_York", b"Nope/Missing", b"localtime"]))
    nf2 = os.path.join(work, "names_p2.txt")
    open(nf2, "w").write("".join(n.hex() + "\n" for n in names2))
    U = "@unset"
    switches = [((tzdir, None, None), (tzdir2, "P2/Local", U)), ((tzdir2, None, None), (tzdir, ":P2/Local", U)),
                ((None, None, None), (tzdir2, "P2/Local", U)), ((tzdir, "X", None), (U, "P2/Local", U)),
                (("", None, None), (tzdir, "localtime", os.path.join(tzdir2, "P2", "Local"))),
                ((tzdir, "localtime", abs_syd), (tzdir2, "localtime", os.path.join(tzdir2, "P2", "OnlyIn2")))]
    with open(out, "a") as f:
        for (td, tz_, lt), (td2, tz2, lt2) in switches:
            e = {k: v for k, v in os.environ.items() if k not in ("TZDIR", "TZ", "LOCALTIME")}
            e["ASAN_OPTIONS"] = "detect_leaks=0"
            for k, v in (("TZDIR", td), ("TZ", tz_), ("LOCALTIME", lt)):
                if v is not None:
                    e[k] = v
            r = subprocess.run([exe, nf1, "--drop-privileges", "--then", td2 if td2 != "" else "@empty", tz2, lt2, nf2], env=e,
                               stdout=subprocess.PIPE, stderr=subprocess.PIPE, text=True, timeout=300)
            nproc += 1
            if r.returncode != 0:
                if r.returncode in (3, 4):
                    verdict.infra_failure("drv_names: " + r.stderr[-200:])
                else:
                    verdict.violation("driver-crash:rc%d" % r.returncode, "drv_names died after an environment switch %r: %s" % ((td2, tz2, lt2), r.stderr[-400:]))
                continue
            f.write(r.stdout)
    lines = open(out).read().splitlines()
    # shard for parallel validation
    nsh = max(2, V.NCPU - 2)
    shards = []
    for i in range(nsh):
        part = lines[i::nsh]
        if part:
            p = os.path.join(work, "v.%d.ndjson" % i)
            open(p, "w").write("\n".join(part) + "\n")
            shards.append(p)
    states = trans = 0
    samples = []
    for path, res in V.validate_shards("NamesTrace", "NamesTrace.cfg", shards, timeout=3000, heap="4g"):
        ls = open(path).read().splitlines()
        if res.infra_failure or res.distinct != len(ls) + 1:
            verdict.infra_failure("TLC on %s: %s" % (os.path.basename(path), res.tail(8)))
            continue
        states += res.distinct
        trans += res.generated - 1
        for n in V.reject_lines(res):
            e = json.loads(ls[n - 1])
            for x in e.get("fs", []):
                x["bytes"] = "(%d bytes)" % len(x["bytes"])
                x["path"] = bytes(x["path"]).decode("latin-1")
            env = {k: (None if v == [-1] else bytes(v).decode("latin-1")) for k, v in e.get("env", {}).items()}
            nm = bytes(e.get("name", [])).decode("latin-1")
            verdict.violation("%s:name=%s:ok=%s" % (e["e"], nm.replace(fx, "<fx>") if e["e"] == "Resolve" else "TZ=%s,LOCALTIME=%s" % (env.get("tz"), (env.get("localtime") or "").replace(fx, "<fx>") if env.get("localtime") is not None else None), e.get("ok")),
                              "env=%s name=%r ok=%s tzname=%r isutc=%s rejected by NamesTrace" % (env, nm, e.get("ok"), bytes(e.get("tzname", [])).decode("latin-1"), e.get("isutc")), e)
        if len(samples) < 4 and ls:
            e = json.loads(ls[len(ls) // 2])
            for x in e.get("fs", []):
                x["bytes"] = "(%d bytes)" % len(x["bytes"])
            samples.append(e)
    NCLOSED = nclosed
    V.log("[%s] %d environments, %d rows, %d rejected" % (pid, nproc, len(lines), len(verdict.violations) + len(verdict.known)))
    return verdict.finish(_ev(pid, tier, seed, t0, states, trans, len(lines), samples, nproc))


NCLOSED = 0


def _ev(pid, tier, seed, t0, states, trans, rows, samples, nproc):
    return {"property_id": pid, "tier": tier, "seed": seed, "level": "model_checking",
            "coverage": {"states": states, "transitions": trans, "traces_validated_against_impl": nproc,
                         "evaluations": rows, "distinct_nontrivial": rows,
                         "rule": "rows = (environment, name) pairs: TZDIR {unset, empty, fixture, nonexistent} x 38 names (relative, absolute, file:-"
                                 "prefixed, ':'-prefixed, empty, directory, unreadable, truncated, garbage, leap-second slim/fat, bad footer, v1, "
                                 "fixed-offset, UTC) and TZ x LOCALTIME combinations for local_time_zone(), one process per environment; every row distinct",
                         "samples": samples or ["(none)"], "exhaustive": True, "environments": nproc, "processes_with_descriptor_0_closed": NCLOSED},
            "assumptions": ["TLC; modules Names, Fixed, TZif, Zone; the harness records the state of candidate paths (a superset) - the spec chooses",
                            "Android/Fuchsia fallback locations are verified absent in this sandbox",
                            "'libc:' names (internal test interface) are not covered"],
            "wall_s": time.time() - t0}
