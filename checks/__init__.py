"""One module per family of properties; each exposes run(pid, tier, seed) -> exit code."""
import importlib

FAMILY = {
    "C04": "civil", "C05": "civil", "C17": "civil",
    "C16": "posix", "C15": "fixed", "C13": "loader", "C20": "loader", "C18": "split", "C19": "names", "C12": "load", "C08": "format", "C07": "format", "C09": "parse",
    "C01": "zone", "C02": "zone", "C03": "zone", "C06": "zone", "C10": "zone", "C11": "zone", "C14": "zone",
}


def run(pid, tier, seed):
    mod = importlib.import_module("checks." + FAMILY[pid])
    return mod.run(pid, tier, seed)
