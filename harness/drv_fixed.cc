// Driver for C15: every offset in a range through fixed_time_zone(), its name through
// load_time_zone() (with a zone_info_source_factory that only counts and serves nothing), the
// internal name<->offset functions, and name strings given as hex lines.
// usage: drv_fixed <out-prefix> <shards> <lo> <hi> <step> <names-hex-file>
#include <fstream>
#include <vector>
#include <cstdint>
#include <functional>
#include <limits>
#include <memory>

#include "cctz/time_zone.h"
#include "cctz/zone_info_source.h"
#include "time_zone_fixed.h"
#include "trace.h"

using namespace cctz;
typedef time_point<seconds> TP;
static int g_calls = 0;
static std::unique_ptr<ZoneInfoSource> Factory(
    const std::string&, const std::function<std::unique_ptr<ZoneInfoSource>(const std::string&)>&) {
  ++g_calls;
  return nullptr;
}
namespace cctz_extension { ZoneInfoSourceFactory zone_info_source_factory = Factory; }

static std::string bj(const std::string& b) {
  std::string s = "[";
  char buf[8];
  for (size_t i = 0; i < b.size(); ++i) { snprintf(buf, sizeof buf, i ? ",%d" : "%d", (unsigned char)b[i]); s += buf; }
  return s + "]";
}
static std::string unhex(const std::string& h) {
  std::string o;
  for (size_t i = 0; i + 1 < h.size(); i += 2) o.push_back((char)strtol(h.substr(i, 2).c_str(), nullptr, 16));
  return o;
}
static std::string lookups(const time_zone& tz, int* ub) {
  static const int64_t ts[] = {std::numeric_limits<int64_t>::min(), -(int64_t(1) << 59) - 1, -2208988800LL, 0,
                               1700000000LL, int64_t(1) << 40, std::numeric_limits<int64_t>::max()};
  std::string s = "[";
  bool first = true;
  for (int64_t t : ts) {
    time_zone::absolute_lookup al;
    int u;
    VT_GUARD(u, al = tz.lookup(TP(seconds(t))));
    if (u) { *ub = 1; continue; }
    if (!first) s += ",";
    first = false;
    s += "{\"t\":" + vt::W(t) + ",\"cs\":" + vt::F(al.cs) + ",\"off\":" + std::to_string(al.offset) + ",\"dst\":" +
         (al.is_dst ? "1" : "0") + ",\"abbr\":" + bj(al.abbr) + "}";
  }
  return s + "]";
}

// Events produced BEFORE main(), from a static initialiser of this translation unit (which is linked ahead of the
// library): a program's own namespace-scope constants (`const time_zone kZone = fixed_time_zone(hours(1));`) use the
// library that early, and the answers must be the same as later.
static std::string fixed_event_simple(long o, const char* tag) {
  time_zone tz = fixed_time_zone(seconds(o));
  std::string name = tz.name();
  time_zone byname;
  bool loadok = load_time_zone(name, &byname);
  seconds back(12345);
  bool fromok = FixedOffsetFromName(FixedOffsetToName(seconds(o)), &back);
  int ub = 0;
  return "{\"e\":\"Fixed\",\"o\":" + std::to_string(o) + ",\"name\":" + bj(name) + ",\"toname\":" + bj(FixedOffsetToName(seconds(o))) +
         ",\"toabbr\":" + bj(FixedOffsetToAbbr(seconds(o))) + ",\"fromok\":" + (fromok ? "1" : "0") + ",\"fromoff\":" +
         std::to_string((long)back.count()) + ",\"loadok\":" + (loadok ? "1" : "0") + ",\"eq\":" + (byname == tz ? "1" : "0") +
         ",\"isutc\":" + (tz == utc_time_zone() ? "1" : "0") + ",\"lookups\":" + lookups(tz, &ub) + ",\"calls\":0,\"ub\":" +
         std::to_string(ub) + ",\"when\":\"" + tag + "\"}";
}
static std::string name_event_simple(const std::string& name, const char* tag) {
  seconds off(777);
  bool fok = FixedOffsetFromName(name, &off);
  time_zone tz;
  int calls0 = g_calls;
  bool ok = load_time_zone(name, &tz);
  int loff = tz.lookup(TP(seconds(0))).offset;
  return "{\"e\":\"FixedName\",\"name\":" + bj(name) + ",\"fok\":" + (fok ? "1" : "0") + ",\"foff\":" + std::to_string(fok ? (long)off.count() : 0) +
         ",\"ok\":" + (ok ? "1" : "0") + ",\"off\":" + std::to_string(loff) + ",\"tzname\":" + bj(tz.name()) + ",\"calls\":" +
         std::to_string(g_calls - calls0) + ",\"ub\":0,\"when\":\"" + tag + "\"}";
}
static std::vector<std::string> g_premain_events;
static const bool g_premain_done = []() {
  for (long o : {3600L, -5400L, 86400L, -1L, 0L, 90000L}) g_premain_events.push_back(fixed_event_simple(o, "premain"));
  for (const char* n : {"Fixed/UTC+01:00:00", "+01:00:00", "-07:00:00", "UTC", "Fixed/UTC-00:00:01", "Fixed/UTC"})
    g_premain_events.push_back(name_event_simple(n, "premain"));
  return true;
}();

int main(int argc, char** argv) {
  if (argc < 7) return 2;
  vt::install_trap_handler();
  vt::Shards out(argv[1], atoi(argv[2]));
  for (const std::string& e : g_premain_events) out.emit(e);
  // ... and the same questions again now (a zone cached before main() must be the one loaded by name afterwards)
  for (long o : {3600L, -5400L, 86400L}) out.emit(fixed_event_simple(o, "main"));
  for (const char* n : {"Fixed/UTC+01:00:00", "+01:00:00", "-07:00:00"}) out.emit(name_event_simple(n, "main"));
  long lo = atol(argv[3]), hi = atol(argv[4]), step = atol(argv[5]);
  for (long o = lo; o <= hi; o += step) {
    int ub = 0;
    int calls0 = g_calls;
    time_zone tz = fixed_time_zone(seconds(o));
    std::string name = tz.name();
    time_zone byname;
    bool loadok = load_time_zone(name, &byname);
    seconds back(12345);
    bool fromok = FixedOffsetFromName(FixedOffsetToName(seconds(o)), &back);
    std::string s = "{\"e\":\"Fixed\",\"o\":" + std::to_string(o) + ",\"name\":" + bj(name) + ",\"toname\":" +
                    bj(FixedOffsetToName(seconds(o))) + ",\"toabbr\":" + bj(FixedOffsetToAbbr(seconds(o))) +
                    ",\"fromok\":" + (fromok ? "1" : "0") + ",\"fromoff\":" + std::to_string((long)back.count()) +
                    ",\"loadok\":" + (loadok ? "1" : "0") + ",\"eq\":" + (byname == tz ? "1" : "0") + ",\"isutc\":" +
                    (tz == utc_time_zone() ? "1" : "0") + ",\"lookups\":" + lookups(tz, &ub) +
                    ",\"calls\":" + std::to_string(g_calls - calls0) + ",\"ub\":" + std::to_string(ub) + "}";
    out.emit(s);
  }
  // offsets far beyond 24 hours, over the whole 64-bit range (all are "UTC"): values whose low 16 / 24 / 32 / 40 / 48
  // bits look like a valid offset, the int32 / int64 limits
  {
    std::vector<int64_t> big;
    const int64_t rs[] = {0, 1, -1, 60, -60, 3600, -3600, 19800, -19800, 86399, -86399, 86400, -86400};
    for (int sh : {17, 18, 24, 31, 32, 40, 48, 62})
      for (int64_t k : {1, -1, 5, -3})
        for (int64_t r : rs) {
          __int128 v = (__int128)k * ((__int128)1 << sh) + r;
          if (v > INT64_MAX || v < INT64_MIN) continue;
          if (v >= -86400 && v <= 86400) continue;
          big.push_back((int64_t)v);
        }
    for (int64_t d : {0, 1, 3599, 3600, 86399, 86400}) { big.push_back(INT64_MAX - d); big.push_back(INT64_MIN + d); big.push_back(2147483647LL - d); big.push_back(-2147483648LL + d); }
    for (int64_t o : big) {
      int ub = 0;
      int calls0 = g_calls;
      time_zone tz;
      std::string name, toname, toabbr;
      time_zone byname;
      bool loadok = false, fromok = false;
      seconds back(12345);
      VT_GUARD(ub, tz = fixed_time_zone(seconds(o)); name = tz.name(); loadok = load_time_zone(name, &byname);
               toname = FixedOffsetToName(seconds(o)); toabbr = FixedOffsetToAbbr(seconds(o)); fromok = FixedOffsetFromName(toname, &back));
      int ub2 = 0;
      std::string lk = ub ? std::string("[]") : lookups(tz, &ub2);
      out.emit("{\"e\":\"FixedBig\",\"ow\":" + vt::W(o) + ",\"o\":90000,\"name\":" + bj(name) + ",\"toname\":" + bj(toname) + ",\"toabbr\":" + bj(toabbr) +
               ",\"fromok\":" + (fromok ? "1" : "0") + ",\"fromoff\":" + std::to_string((long)back.count()) + ",\"loadok\":" + (loadok ? "1" : "0") +
               ",\"eq\":" + (byname == tz ? "1" : "0") + ",\"isutc\":" + (tz == utc_time_zone() ? "1" : "0") + ",\"lookups\":" + lk +
               ",\"calls\":" + std::to_string(g_calls - calls0) + ",\"ub\":" + std::to_string(ub | ub2) + "}");
    }
  }
  // names far longer than any fixed-offset name that merely BEGIN like one: lengths whose low 8 / 16 / 32 bits equal
  // the length of a real name (a length kept in a narrower integer would see 18, 3 or 4)
  {
    long avail_kb = 0;
    { std::ifstream mi("/proc/meminfo"); std::string k; long v; std::string unit;
      while (mi >> k >> v) { std::getline(mi, unit); if (k == "MemAvailable:") avail_kb = v; } }
    const char* heads[] = {"Fixed/UTC+01:00:00", "UTC", "UTC0", "Fixed/UTC-23:59:59"};
    std::vector<uint64_t> wraps = {256, 65536};
    if (avail_kb > 16L * 1024 * 1024) wraps.push_back(4294967296ULL);
    for (uint64_t wlen : wraps)
      for (const char* h : heads) {
        if (wlen > 65536 && h[0] == 'U' && h[3] == '0') continue;     // one 4 GiB text per family is enough
        std::string name(h);
        name.resize(wlen + strlen(h), h[0] == 'F' ? '0' : 'x');
        int ub = 0;
        seconds off(777);
        bool fok = false;
        VT_GUARD(ub, fok = FixedOffsetFromName(name, &off));
        out.emit("{\"e\":\"FixedLong\",\"head\":" + bj(h) + ",\"len\":" + vt::W((vt::i128)name.size()) + ",\"fok\":" + (fok ? "1" : "0") +
                 ",\"ub\":" + std::to_string(ub) + "}");
      }
  }
  std::ifstream in(argv[6]);
  std::string line;
  while (std::getline(in, line)) {
    std::string name = unhex(line);
    int calls0 = g_calls, ub = 0;
    seconds off(777);
    bool fok = false;
    VT_GUARD(ub, fok = FixedOffsetFromName(name, &off));
    time_zone tz;
    bool ok = false;
    int ub2 = 0;
    VT_GUARD(ub2, ok = load_time_zone(name, &tz));
    int loff = 0;
    if (!ub2) loff = tz.lookup(TP(seconds(0))).offset;
    out.emit("{\"e\":\"FixedName\",\"name\":" + bj(name) + ",\"fok\":" + (fok ? "1" : "0") + ",\"foff\":" +
             std::to_string(fok ? (long)off.count() : 0) + ",\"ok\":" + (ok ? "1" : "0") + ",\"off\":" + std::to_string(loff) +
             ",\"tzname\":" + bj(tz.name()) + ",\"calls\":" + std::to_string(g_calls - calls0) + ",\"ub\":" + std::to_string(ub | ub2) + "}");
  }
  fprintf(stderr, "drv_fixed: %llu events\n", (unsigned long long)out.count);
  out.close();
  return 0;
}
