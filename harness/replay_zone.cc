// spec -> impl replay for small-world zones: reads zones (TZif bytes, hex) with the answers the
// TLA+ specification assigns (exported by TLC from spec/MCZone.tla), runs the real library and
// compares.  Also checks C03 / C06 relations directly on the real answers for every instant of the
// window.  Prints one "MISMATCH <kind> <zone-id> ..." line per disagreement and a summary.
//
// input lines:  Z <id> <wf> <hex>
//               B t y m d hh mm ss off dst abbrhex
//               M y m d hh mm ss kind(U|S|R) pre trans post
//               N|P t ok [fy fm fd fhh fmm fss ty tm td thh tmm tss]
#include <cinttypes>
#include <fstream>
#include <functional>
#include <iostream>
#include <map>
#include <memory>
#include <mutex>
#include <sstream>

#include "cctz/time_zone.h"
#include "cctz/zone_info_source.h"
#include "trace.h"

using namespace cctz;
typedef time_point<seconds> TP;

static std::mutex g_mu;
static std::map<std::string, std::string> g_files;
class MemSource : public ZoneInfoSource {
 public:
  explicit MemSource(const std::string& d) : d_(d), pos_(0) {}
  std::size_t Read(void* ptr, std::size_t size) override {
    std::size_t n = std::min(size, d_.size() - pos_);
    memcpy(ptr, d_.data() + pos_, n);
    pos_ += n;
    return n;
  }
  int Skip(std::size_t offset) override { pos_ += std::min(offset, d_.size() - pos_); return 0; }
 private:
  std::string d_;
  std::size_t pos_;
};
static std::unique_ptr<ZoneInfoSource> Factory(
    const std::string& name, const std::function<std::unique_ptr<ZoneInfoSource>(const std::string&)>&) {
  std::lock_guard<std::mutex> l(g_mu);
  auto it = g_files.find(name);
  if (it == g_files.end()) return nullptr;
  return std::unique_ptr<ZoneInfoSource>(new MemSource(it->second));
}
namespace cctz_extension { ZoneInfoSourceFactory zone_info_source_factory = Factory; }

static std::string unhex(const std::string& h) {
  std::string o;
  for (size_t i = 0; i + 1 < h.size(); i += 2) o.push_back((char)strtol(h.substr(i, 2).c_str(), nullptr, 16));
  return o;
}
static std::string cs_str(const civil_second& c) {
  char b[96];
  snprintf(b, sizeof b, "%lld-%d-%d %d:%d:%d", (long long)c.year(), c.month(), c.day(), c.hour(), c.minute(), c.second());
  return b;
}
static civil_second read_cs(std::istringstream& is) {
  long long y; int m, d, hh, mm, ss;
  is >> y >> m >> d >> hh >> mm >> ss;
  return civil_second(y, m, d, hh, mm, ss);
}

int main(int argc, char** argv) {
  if (argc < 2) return 2;
  vt::install_trap_handler();
  std::ifstream in(argv[1]);
  std::string line, id;
  time_zone tz;
  bool loaded = false, wf = false;
  long zones = 0, nload = 0, answers = 0, mism = 0, rel = 0, ubs = 0;
  int lo = atoi(argc > 2 ? argv[2] : "-16"), hi = atoi(argc > 3 ? argv[3] : "16");
  auto bad = [&](const std::string& kind, const std::string& what) {
    ++mism;
    if (mism <= 200) printf("MISMATCH %s %s %s\n", kind.c_str(), id.c_str(), what.c_str());
  };
  while (std::getline(in, line)) {
    if (line.empty()) continue;
    std::istringstream is(line);
    std::string tag;
    is >> tag;
    if (tag == "Z") {
      int w; std::string hex;
      is >> id >> w >> hex;
      wf = w != 0;
      ++zones;
      std::string key = "SW/" + id;
      { std::lock_guard<std::mutex> l(g_mu); g_files.clear(); g_files[key] = unhex(hex); }
      int ub;
      VT_GUARD(ub, loaded = load_time_zone(key, &tz));
      if (ub) { ++ubs; bad("UB", "load"); loaded = false; }
      if (loaded) ++nload;
      if (wf && !loaded) bad("LOAD", "well-formed zone rejected");
      if (loaded && wf) {
        // C03 and C06 directly on the real answers, every instant / civil second of the window
        int ub2 = 0;
        TP prev = TP::min();
        for (int t = lo - 6; t <= hi + 6; ++t) {
          VT_GUARD(ub2, {
            civil_second cs = convert(TP(seconds(t)), tz);
            time_zone::civil_lookup cl = tz.lookup(cs);
            ++rel;
            if (cl.kind == time_zone::civil_lookup::SKIPPED) bad("C03", "t=" + std::to_string(t) + " round trip SKIPPED");
            else if (cl.kind == time_zone::civil_lookup::UNIQUE && cl.pre != TP(seconds(t))) bad("C03", "t=" + std::to_string(t) + " UNIQUE pre!=t");
            else if (cl.kind == time_zone::civil_lookup::REPEATED && cl.pre != TP(seconds(t)) && cl.post != TP(seconds(t))) bad("C03", "t=" + std::to_string(t) + " REPEATED t not in {pre,post}");
            // civil seconds as UTC shows them, ascending
            civil_second u = civil_second() + t;
            TP c = convert(u, tz);
            if (t > lo - 6 && c < prev) bad("C06", "cs=" + cs_str(u) + " convert decreased");
            prev = c;
            time_zone::civil_lookup cu = tz.lookup(u);
            if (cu.kind != time_zone::civil_lookup::SKIPPED) {
              if (convert(cu.pre, tz) != u) bad("C03", "cs=" + cs_str(u) + " pre does not display cs");
              if (convert(cu.post, tz) != u) bad("C03", "cs=" + cs_str(u) + " post does not display cs");
            }
          });
          if (ub2) { ++ubs; bad("UB", "relations t=" + std::to_string(t)); }
        }
      }
      continue;
    }
    if (!loaded) continue;
    int ub = 0;
    if (tag == "B") {
      long long t; is >> t;
      civil_second ecs = read_cs(is);
      int off, dst; std::string ab;
      is >> off >> dst >> ab;
      time_zone::absolute_lookup al;
      VT_GUARD(ub, al = tz.lookup(TP(seconds(t))));
      ++answers;
      if (ub) { ++ubs; bad("UB", "B t=" + std::to_string(t)); continue; }
      if (al.cs != ecs || al.offset != off || (al.is_dst ? 1 : 0) != dst || unhex(ab) != std::string(al.abbr))
        bad("B", "t=" + std::to_string(t) + " got " + cs_str(al.cs) + " off=" + std::to_string(al.offset) + " dst=" + std::to_string(al.is_dst) + " abbr=" + al.abbr + " want " + cs_str(ecs) + " off=" + std::to_string(off));
    } else if (tag == "M") {
      civil_second cs = read_cs(is);
      std::string k; long long pre, tr, post;
      is >> k >> pre >> tr >> post;
      time_zone::civil_lookup cl;
      VT_GUARD(ub, cl = tz.lookup(cs));
      ++answers;
      if (ub) { ++ubs; bad("UB", "M cs=" + cs_str(cs)); continue; }
      const char gk = cl.kind == time_zone::civil_lookup::UNIQUE ? 'U' : cl.kind == time_zone::civil_lookup::SKIPPED ? 'S' : 'R';
      if (gk != k[0] || cl.pre != TP(seconds(pre)) || cl.trans != TP(seconds(tr)) || cl.post != TP(seconds(post)))
        bad("M", "cs=" + cs_str(cs) + " got " + gk + " " + std::to_string(cl.pre.time_since_epoch().count()) + " " + std::to_string(cl.trans.time_since_epoch().count()) + " " + std::to_string(cl.post.time_since_epoch().count()) + " want " + k + " " + std::to_string(pre) + " " + std::to_string(tr) + " " + std::to_string(post));
    } else if (tag == "N" || tag == "P") {
      long long t; int ok;
      is >> t >> ok;
      time_zone::civil_transition ct;
      bool got = false;
      VT_GUARD(ub, got = (tag == "N") ? tz.next_transition(TP(seconds(t)), &ct) : tz.prev_transition(TP(seconds(t)), &ct));
      ++answers;
      if (ub) { ++ubs; bad("UB", tag + " t=" + std::to_string(t)); continue; }
      if (got != (ok != 0)) { bad(tag, "t=" + std::to_string(t) + " ok=" + std::to_string(got) + " want " + std::to_string(ok)); continue; }
      if (ok) {
        civil_second f = read_cs(is), to = read_cs(is);
        if (ct.from != f || ct.to != to)
          bad(tag, "t=" + std::to_string(t) + " got " + cs_str(ct.from) + " -> " + cs_str(ct.to) + " want " + cs_str(f) + " -> " + cs_str(to));
      }
    }
  }
  printf("SUMMARY zones=%ld loaded=%ld answers=%ld relations=%ld mismatches=%ld ub=%ld\n", zones, nload, answers, rel, mism, ubs);
  return 0;
}
