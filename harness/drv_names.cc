// Driver for C19: runs in ONE environment (TZDIR / TZ / LOCALTIME are whatever the parent set) and
// resolves a list of names; logs what load_time_zone / local_time_zone / a default-constructed zone
// do, together with the environment values and the state of every candidate path (read here so that
// the specification decides from the actual bytes).  No expected values.
// usage: drv_names <names-hex-file> [--drop-privileges]   (NDJSON on stdout)
#include <dirent.h>
#include <sys/resource.h>
#include <sys/stat.h>
#include <unistd.h>

#include <fstream>
#include <iostream>
#include <set>
#include <vector>

#include "cctz/time_zone.h"
#include "trace.h"

using namespace cctz;
typedef time_point<seconds> TP;

static std::string unhex(const std::string& h) {
  std::string o;
  for (size_t i = 0; i + 1 < h.size(); i += 2) o.push_back((char)strtol(h.substr(i, 2).c_str(), nullptr, 16));
  return o;
}
static std::string bj(const std::string& b) {
  std::string s = "[";
  char buf[8];
  for (size_t i = 0; i < b.size(); ++i) { snprintf(buf, sizeof buf, i ? ",%d" : "%d", (unsigned char)b[i]); s += buf; }
  return s + "]";
}
static std::string envj(const char* k) {
  const char* v = getenv(k);
  return v ? bj(v) : std::string("[-1]");
}
static std::string env_json() {
  return "{\"tzdir\":" + envj("TZDIR") + ",\"tz\":" + envj("TZ") + ",\"localtime\":" + envj("LOCALTIME") + "}";
}
static std::string fs_entry(const std::string& path) {
  std::string s = "{\"path\":" + bj(path) + ",\"kind\":";
  struct stat st;
  if (path.find('\0') != std::string::npos || stat(path.c_str(), &st) != 0) return s + "\"absent\",\"bytes\":[]}";
  if (S_ISDIR(st.st_mode)) return s + "\"dir\",\"bytes\":[]}";
  std::ifstream f(path, std::ios::binary);
  if (!f) return s + "\"unreadable\",\"bytes\":[]}";
  std::string b((std::istreambuf_iterator<char>(f)), std::istreambuf_iterator<char>());
  if (b.size() > 70000) return s + "\"toolarge\",\"bytes\":[]}";
  return s + "\"file\",\"bytes\":" + bj(b) + "}";
}
// every path the name could possibly denote (a superset; the specification picks)
static std::string fs_json(const std::string& name) {
  std::set<std::string> c;
  std::vector<std::string> rests = {name};
  if (name.compare(0, 5, "file:") == 0) rests.push_back(name.substr(5));
  const char* td = getenv("TZDIR");
  for (const std::string& r : rests) {
    c.insert(r);
    c.insert("/usr/share/zoneinfo/" + r);
    if (td) c.insert(std::string(td) + "/" + r);
  }
  std::string s = "[";
  bool first = true;
  for (const std::string& p : c) { s += (first ? "" : ",") + fs_entry(p); first = false; }
  return s + "]";
}
static std::string looks(const time_zone& tz) {
  static const int64_t ts[] = {-3000000000LL, -1000000000LL, 0, 1000000000LL, 1500000000LL, 1720000000LL, 4000000000LL, 40000000000LL};
  std::string s = "[";
  for (size_t i = 0; i < sizeof ts / sizeof ts[0]; ++i) {
    auto al = tz.lookup(TP(seconds(ts[i])));
    s += (i ? "," : "") + std::string("{\"t\":") + vt::W(ts[i]) + ",\"cs\":" + vt::F(al.cs) + ",\"off\":" + std::to_string(al.offset) +
         ",\"dst\":" + (al.is_dst ? "1" : "0") + ",\"abbr\":" + bj(al.abbr) + "}";
  }
  return s + "]";
}

int main(int argc, char** argv) {
  if (argc < 2) return 2;
  if (argc > 2 && strcmp(argv[2], "--drop-privileges") == 0) {
    if (setgid(65534) != 0 || setuid(65534) != 0) { fprintf(stderr, "cannot drop privileges\n"); return 3; }
  }
  // the foreign-platform fallbacks must not exist here (otherwise the rows are not comparable)
  struct stat st;
  bool foreign = stat("/apex/com.android.tzdata/etc/tz/tzdata", &st) == 0 || stat("/data/misc/zoneinfo/current/tzdata", &st) == 0 ||
                 stat("/system/usr/share/zoneinfo/tzdata", &st) == 0 || stat("/config/data/tzdata", &st) == 0 ||
                 stat("/pkg/data/tzdata", &st) == 0 || stat("/data/tzdata", &st) == 0 || stat("/config/tzdata", &st) == 0;
  if (foreign) { fprintf(stderr, "foreign tzdata present\n"); return 4; }
  {
    time_zone d;
    printf("{\"e\":\"Default\",\"eq\":%d,\"look\":%s}\n", d == utc_time_zone() ? 1 : 0, looks(d).c_str());
  }
  // VT_CLOSE_STDIN: the process runs as daemons do, with descriptor 0 closed before its first load (the first
  // file the loader opens then IS descriptor 0); VT_NO_LOCAL: the first load is a named one, not the local zone
  // VT_FD_LIMIT=<n>: the process may hold at most n descriptors (a load that leaks one per failed name runs dry)
  if (const char* fl = getenv("VT_FD_LIMIT")) {
    struct rlimit rl;
    if (getrlimit(RLIMIT_NOFILE, &rl) == 0) { rl.rlim_cur = (rlim_t)atoi(fl); setrlimit(RLIMIT_NOFILE, &rl); }
  }
  if (getenv("VT_CLOSE_STDIN")) close(0);
  if (!getenv("VT_NO_LOCAL")) {
    time_zone l = local_time_zone();
    const char* tz = getenv("TZ");
    std::string n = tz ? tz : ":localtime";   // only used to choose which paths to record (superset)
    if (!n.empty() && n[0] == ':') n = n.substr(1);
    std::string fsj = "[";
    std::set<std::string> c = {n, "/etc/localtime", "/usr/share/zoneinfo/" + n};
    if (getenv("LOCALTIME")) { c.insert(getenv("LOCALTIME")); c.insert(std::string("/usr/share/zoneinfo/") + getenv("LOCALTIME")); }
    if (getenv("TZDIR")) { c.insert(std::string(getenv("TZDIR")) + "/" + n); if (getenv("LOCALTIME")) c.insert(std::string(getenv("TZDIR")) + "/" + getenv("LOCALTIME")); }
    bool first = true;
    for (const std::string& p : c) { fsj += (first ? "" : ",") + fs_entry(p); first = false; }
    fsj += "]";
    printf("{\"e\":\"Local\",\"env\":%s,\"ok\":-1,\"tzname\":%s,\"isutc\":%d,\"look\":%s,\"fs\":%s}\n", env_json().c_str(),
           bj(l.name()).c_str(), l == utc_time_zone() ? 1 : 0, looks(l).c_str(), fsj.c_str());
  }
  auto resolve_all = [&](const char* file) {
    std::vector<std::string> lines;
    {   // read and close first: the list must not occupy a descriptor while the loader works
      std::ifstream in(file);
      std::string line;
      while (std::getline(in, line)) lines.push_back(line);
    }
    // what the file system holds for each name is recorded before any load (the recording needs descriptors of its own, and a
    // load under test may have used them up)
    std::vector<std::string> fsj;
    for (const std::string& line : lines) fsj.push_back(fs_json(unhex(line)));
    for (size_t i = 0; i < lines.size(); ++i) {
      std::string name = unhex(lines[i]);
      time_zone tz;
      bool ok = load_time_zone(name, &tz);
      printf("{\"e\":\"Resolve\",\"env\":%s,\"name\":%s,\"ok\":%d,\"tzname\":%s,\"isutc\":%d,\"look\":%s,\"fs\":%s}\n", env_json().c_str(),
             bj(name).c_str(), ok ? 1 : 0, bj(tz.name()).c_str(), tz == utc_time_zone() ? 1 : 0, looks(tz).c_str(), fsj[i].c_str());
    }
  };
  resolve_all(argv[1]);
  // second phase: the process changes its environment (as programs that call setenv("TZ"/"TZDIR") do) and
  // resolves names it has never asked for: the environment in force at the time of the call decides
  //   --then <TZDIR> <TZ> <LOCALTIME> <names2-file>      ("@unset" / "@empty" for those states)
  for (int i = 2; i + 4 < argc; ++i) {
    if (strcmp(argv[i], "--then") != 0) continue;
    const char* keys[3] = {"TZDIR", "TZ", "LOCALTIME"};
    for (int k = 0; k < 3; ++k) {
      const char* v = argv[i + 1 + k];
      if (strcmp(v, "@unset") == 0) unsetenv(keys[k]);
      else setenv(keys[k], strcmp(v, "@empty") == 0 ? "" : v, 1);
    }
    {
      time_zone l = local_time_zone();
      const char* tz = getenv("TZ");
      std::string n = tz ? tz : ":localtime";
      if (!n.empty() && n[0] == ':') n = n.substr(1);
      std::set<std::string> c = {n, "/etc/localtime", "/usr/share/zoneinfo/" + n};
      if (getenv("LOCALTIME")) { c.insert(getenv("LOCALTIME")); c.insert(std::string("/usr/share/zoneinfo/") + getenv("LOCALTIME")); }
      if (getenv("TZDIR")) { c.insert(std::string(getenv("TZDIR")) + "/" + n); if (getenv("LOCALTIME")) c.insert(std::string(getenv("TZDIR")) + "/" + getenv("LOCALTIME")); }
      std::string fsj = "[";
      bool first = true;
      for (const std::string& p : c) { fsj += (first ? "" : ",") + fs_entry(p); first = false; }
      fsj += "]";
      printf("{\"e\":\"Local\",\"env\":%s,\"ok\":-1,\"tzname\":%s,\"isutc\":%d,\"look\":%s,\"fs\":%s}\n", env_json().c_str(),
             bj(l.name()).c_str(), l == utc_time_zone() ? 1 : 0, looks(l).c_str(), fsj.c_str());
    }
    resolve_all(argv[i + 4]);
  }
  return 0;
}
