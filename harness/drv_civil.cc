// Driver for C04 / C05 / C17: exercises cctz civil-time construction, arithmetic, difference,
// comparison, alignment conversion and weekday functions and logs one NDJSON event per call with
// arguments, result and whether the call trapped under UBSan.  The driver contains no expected
// values: spec/CivilTrace.tla is the only oracle.
//
// usage: drv_civil <out-prefix> <shards> <seed> <quick|thorough> [families: ctor,arith,wday]
#include <cinttypes>
#include <iomanip>
#include <locale>
#include <sstream>
#include <limits>

#include "trace.h"

using namespace cctz;
using vt::F;
using vt::W;

static vt::Shards* out;
static bool fam_ctor = true, fam_arith = true, fam_wday = true;
static const int64_t kMax = std::numeric_limits<int64_t>::max();
static const int64_t kMin = std::numeric_limits<int64_t>::min();

static int64_t wadd(int64_t a, int64_t b) { return (int64_t)((uint64_t)a + (uint64_t)b); }  // wrapping
static bool leap(int64_t y) { return y % 4 == 0 && (y % 100 != 0 || y % 400 == 0); }
static int dim(int64_t y, int m) {
  static const int k[13] = {0, 31, 28, 31, 30, 31, 30, 31, 31, 30, 31, 30, 31};
  return k[m] + (m == 2 && leap(y));
}

// biased 64-bit values: zeros, small, unit multiples, powers of two, type limits
static int64_t edge(vt::Rng& r) {
  static const int64_t units[] = {12, 24, 60, 400, 3600, 86400, 146097, 4800, 12622780800LL};
  switch (r.below(12)) {
    case 0: return 0;
    case 1: return r.range(-3, 3);
    case 2: return r.range(-100, 100);
    case 3: return r.range(-40000, 40000);
    case 4: { int64_t u = units[r.below(9)]; return u * r.range(-5, 5) + r.range(-1, 1); }
    case 5: { int64_t u = units[r.below(9)]; return u * r.range(-100000, 100000) + r.range(-1, 1); }
    case 6: { int sh = (int)r.range(8, 62); int64_t v = (int64_t(1) << sh) + r.range(-2, 2); return r.below(2) ? v : -v; }
    case 7: return kMax - r.range(0, 3);
    case 8: return kMin + r.range(0, 3);
    case 9: return (r.below(2) ? kMax : kMin) / (int64_t)r.pick(std::vector<int64_t>{2, 12, 24, 60, 400, 86400});
    case 10: return (int64_t)r.next();
    default: return (int64_t)(r.next() >> r.range(1, 60)) * (r.below(2) ? 1 : -1);
  }
}

// Day counts at which the Gregorian calendar has a block boundary (month, year, 4-year, century
// and 400-year lengths) and their neighbours, both signs.
static const std::vector<int64_t>& special_days() {
  static std::vector<int64_t> v;
  if (v.empty()) {
    const int64_t b[] = {0, 1, 2, 27, 28, 29, 30, 31, 32, 58, 59, 60, 61, 62, 89, 90, 91, 92, 334, 335,
                         364, 365, 366, 367, 395, 396, 397, 729, 730, 731, 732, 1095, 1096, 1097, 1460,
                         1461, 1462, 36523, 36524, 36525, 36526, 146096, 146097, 146098};
    for (int64_t x : b) { v.push_back(x); if (x) v.push_back(-x); }
  }
  return v;
}
static int special_reps = 8;  // how many special day counts are tried per base (all in thorough)

// era base years (all multiples of 400 so that base + cycle-year keeps its calendar)
static std::vector<int64_t> eras() {
  std::vector<int64_t> e = {2000, 1600, 0, -400, -2000, 10000, 2147483600LL, -2147483600LL,
                            4294967200LL, 10000000000LL, -10000000000LL, 1000000000000000LL,
                            -1000000000000000LL, 292277026400LL, -292277022800LL};
  e.push_back(kMax - (kMax % 400) - 400);      // last full cycle below the maximum
  e.push_back(kMax - (kMax % 400));            // cycle containing the maximum
  e.push_back(kMin - (kMin % 400));            // cycle starting just above the minimum
  e.push_back(kMin - (kMin % 400) + 400);
  return e;
}

template <typename CT> struct Tag;
template <> struct Tag<civil_second> { enum { v = 0 }; };
template <> struct Tag<civil_minute> { enum { v = 1 }; };
template <> struct Tag<civil_hour> { enum { v = 2 }; };
template <> struct Tag<civil_day> { enum { v = 3 }; };
template <> struct Tag<civil_month> { enum { v = 4 }; };
template <> struct Tag<civil_year> { enum { v = 5 }; };

static const char* kDummy = "[[1],1,1,0,0,0]";

// operator<< (the observation point the accessors share): the text of the value under a rotating state of the
// destination stream - number base, showpos / showbase / uppercase, a grouping numpunct imbued on the stream,
// width + fill + adjustment.  Only width, fill and adjustment may show in the output.
struct Grouping : std::numpunct<char> {
  char do_thousands_sep() const override { return ','; }
  std::string do_grouping() const override { return "\3"; }
};
static unsigned g_sv = 0;
template <typename CT>
static std::string stream_fields(const CT& c) {
  unsigned v = g_sv++;
  std::ostringstream os;
  switch (v % 8) {
    case 1: os << std::hex; break;
    case 2: os << std::showpos; break;
    case 3: os << std::oct << std::showbase; break;
    case 4: os << std::hex << std::uppercase << std::showbase; break;
    case 5: os.imbue(std::locale(std::locale::classic(), new Grouping)); break;
    case 6: os << std::showpos << std::hex; os.imbue(std::locale(std::locale::classic(), new Grouping)); break;
    default: break;
  }
  static const int widths[] = {0, 0, 0, 1, 5, 21, 30, 0, 12};
  int w = widths[(v / 8) % 9];
  int adj = (int)((v / 72) % 3);   // 0 right (default), 1 left, 2 internal
  char fill = "  .0*"[(v / 216) % 5];
  if (w) os << std::setw(w);
  os << std::setfill(fill);
  if (adj == 1) os << std::left; else if (adj == 2) os << std::internal;
  os << c;
  long after = (long)os.width();
  char buf[96];
  snprintf(buf, sizeof buf, ",\"sv\":%u,\"sw\":%d,\"sl\":%d,\"sf\":%d,\"swa\":%ld,\"s\":", v % 8, w, adj == 1 ? 1 : 0, (int)fill, after);
  std::string text = os.str(), b = "[";
  for (size_t i = 0; i < text.size(); ++i) { if (i) b += ","; b += std::to_string((int)(unsigned char)text[i]); }
  return std::string(buf) + b + "]";
}

template <typename CT>
static void ev_ctor(const int64_t a[6]) {
  int ub;
  CT c;
  VT_GUARD(ub, c = CT(a[0], a[1], a[2], a[3], a[4], a[5]));
  std::string s = "{\"e\":\"Ctor\",\"tag\":" + std::to_string((int)Tag<CT>::v) + ",\"a\":[";
  for (int i = 0; i < 6; ++i) { if (i) s += ","; s += W(a[i]); }
  s += "],\"r\":" + (ub ? std::string(kDummy) : F(c)) + ",\"ub\":" + std::to_string(ub);
  s += ub ? std::string(",\"sv\":0,\"sw\":0,\"sl\":0,\"sf\":32,\"swa\":0,\"s\":[]") : stream_fields(c);
  out->emit(s + "}");
}

template <typename CT>
static void ev_add(const CT& a, int64_t n, bool sub) {
  int ub;
  CT c;
  if (sub) VT_GUARD(ub, c = a - n); else VT_GUARD(ub, c = a + n);
  out->emit(std::string("{\"e\":\"") + (sub ? "Sub" : "Add") + "\",\"tag\":" +
            std::to_string((int)Tag<CT>::v) + ",\"a\":" + F(a) + ",\"n\":" + W(n) + ",\"r\":" +
            (ub ? std::string(kDummy) : F(c)) + ",\"ub\":" + std::to_string(ub) + "}");
}

template <typename CT>
static void ev_diff(const CT& a, const CT& b) {
  int ub;
  int64_t d = 0;
  VT_GUARD(ub, d = a - b);
  out->emit("{\"e\":\"Diff\",\"tag\":" + std::to_string((int)Tag<CT>::v) + ",\"a\":" + F(a) +
            ",\"b\":" + F(b) + ",\"r\":" + W(ub ? 0 : d) + ",\"ub\":" + std::to_string(ub) + "}");
}

template <typename A, typename B>
static void ev_cmp(const A& a, const B& b) {
  char buf[128];
  snprintf(buf, sizeof buf, ",\"lt\":%d,\"le\":%d,\"gt\":%d,\"ge\":%d,\"eq\":%d,\"ne\":%d}", (int)(a < b),
           (int)(a <= b), (int)(a > b), (int)(a >= b), (int)(a == b), (int)(a != b));
  out->emit("{\"e\":\"Cmp\",\"ta\":" + std::to_string((int)Tag<A>::v) + ",\"tb\":" +
            std::to_string((int)Tag<B>::v) + ",\"a\":" + F(a) + ",\"b\":" + F(b) + buf);
}

template <typename A, typename B>
static void ev_conv(const A& a) {
  B b(a);
  out->emit("{\"e\":\"Conv\",\"from\":" + std::to_string((int)Tag<A>::v) + ",\"to\":" +
            std::to_string((int)Tag<B>::v) + ",\"a\":" + F(a) + ",\"r\":" + F(b) + "}");
}

static void ev_wday(const civil_second& cs) {
  int wd = -1, yd = -1, ub;
  VT_GUARD(ub, wd = static_cast<int>(get_weekday(cs)); yd = get_yearday(cs));
  out->emit("{\"e\":\"Wday\",\"a\":" + F(cs) + ",\"wd\":" + std::to_string(wd) + ",\"yd\":" +
            std::to_string(yd) + ",\"ub\":" + std::to_string(ub) + "}");
}
static void ev_nextprev(const civil_day& cd, int wd) {
  int ub;
  civil_day r;
  VT_GUARD(ub, r = next_weekday(cd, static_cast<weekday>(wd)));
  out->emit("{\"e\":\"NextWd\",\"a\":" + F(cd) + ",\"wd\":" + std::to_string(wd) + ",\"r\":" +
            (ub ? std::string(kDummy) : F(r)) + ",\"ub\":" + std::to_string(ub) + "}");
  VT_GUARD(ub, r = prev_weekday(cd, static_cast<weekday>(wd)));
  out->emit("{\"e\":\"PrevWd\",\"a\":" + F(cd) + ",\"wd\":" + std::to_string(wd) + ",\"r\":" +
            (ub ? std::string(kDummy) : F(r)) + ",\"ub\":" + std::to_string(ub) + "}");
}

template <typename CT>
static void arith_panel(vt::Rng& r, int64_t y, int m, int d, int hh, int mm, int ss, int reps) {
  // fields are valid and in range: the constructor's fast path / trivial normalisation
  const CT a(y, m, d, hh, mm, ss);
  for (int i = 0; i < reps; ++i) {
    int64_t n = edge(r);
    ev_add(a, n, false);
    ev_add(a, n, true);
  }
  ev_add(a, kMin, true);
  if (Tag<CT>::v <= 3) {  // sub-month alignments: moves whose day count hits a calendar block boundary
    static const int64_t unit[4] = {86400, 1440, 24, 1};
    const std::vector<int64_t>& sd = special_days();
    size_t n = special_reps ? (size_t)special_reps : sd.size();
    size_t start = special_reps ? (size_t)r.below(sd.size()) : 0;
    for (size_t i = 0; i < n; ++i) {
      int64_t sp = sd[(start + i * 7) % sd.size()];
      int64_t u = unit[Tag<CT>::v];
      int64_t nn = u * (sp - d) + (r.below(2) ? 0 : r.range(-(u - 1), u - 1));
      ev_add(a, nn, false);
      ev_add(a, nn, true);
      ev_add(a, u * sp, r.below(2) != 0);
    }
  }
  // differences: against a value reached by arithmetic and against an independent value
  {
    int ub;
    CT b;
    int64_t n = edge(r);
    VT_GUARD(ub, b = a + n);
    if (!ub) { ev_diff(a, b); ev_diff(b, a); ev_cmp(a, b); }
  }
  {
    int64_t y2 = r.below(3) == 0 ? (int64_t)r.next() : (r.below(2) ? wadd(y, r.range(-2, 2)) : edge(r));
    int m2 = (int)r.range(1, 12);
    int d2 = (int)r.range(1, dim(y2, m2));
    const CT b(y2, m2, d2, (int)r.range(0, 23), (int)r.range(0, 59), (int)r.range(0, 59));
    ev_diff(a, b);
    ev_diff(b, a);
    ev_cmp(a, b);
  }
}

static void base_day(vt::Rng& r, int64_t y, int m, int d, int reps) {
  int hh = (int)r.range(0, 23), mi = (int)r.range(0, 59), ss = (int)r.range(0, 59);
  if (r.below(4) == 0) { hh = 23; mi = 59; ss = 59; }
  if (r.below(4) == 0) { hh = 0; mi = 0; ss = 0; }
  if (fam_ctor) {
  // --- C04: construction from out-of-range fields (one field, then several, mixed signs)
  for (int i = 0; i < reps; ++i) {
    int64_t a[6] = {y, m, d, hh, mi, ss};
    int k = (int)r.range(1, 5);
    a[k] = wadd(a[k], edge(r));
    switch (r.below(6)) {
      case 0: ev_ctor<civil_second>(a); break;
      case 1: ev_ctor<civil_minute>(a); break;
      case 2: ev_ctor<civil_hour>(a); break;
      case 3: ev_ctor<civil_day>(a); break;
      case 4: ev_ctor<civil_month>(a); break;
      default: ev_ctor<civil_year>(a); break;
    }
  }
  for (int i = 0; i < reps; ++i) {
    int64_t a[6] = {y, m, d, hh, mi, ss};
    for (int k = 1; k < 6; ++k)
      if (r.below(2)) a[k] = r.below(3) ? wadd(a[k], edge(r)) : edge(r);
    if (r.below(4) == 0) a[0] = edge(r);
    ev_ctor<civil_second>(a);
  }
  {  // day field on calendar block boundaries: literally, relative to the base day, and carried in
     // through the hour field
    const std::vector<int64_t>& sd = special_days();
    size_t n = special_reps ? (size_t)special_reps : sd.size();
    size_t start = special_reps ? (size_t)r.below(sd.size()) : 0;
    for (size_t i = 0; i < n; ++i) {
      int64_t sp = sd[(start + i * 7) % sd.size()];
      int64_t a[6] = {y, m, sp, hh, mi, ss};
      ev_ctor<civil_second>(a);
      a[2] = d + sp;
      ev_ctor<civil_day>(a);
      a[2] = d; a[3] = hh + 24 * (sp - d);
      ev_ctor<civil_hour>(a);
      a[3] = hh; a[1] = m + (sp % 64);      // month carry with an in-range day
      ev_ctor<civil_month>(a);
    }
  }
  {  // in-range fields through every alignment
    int64_t a[6] = {y, m, d, hh, mi, ss};
    ev_ctor<civil_second>(a); ev_ctor<civil_minute>(a); ev_ctor<civil_hour>(a);
    ev_ctor<civil_day>(a); ev_ctor<civil_month>(a); ev_ctor<civil_year>(a);
  }
  // --- conversions between alignments
  {
    const civil_second s(y, m, d, hh, mi, ss);
    ev_conv<civil_second, civil_minute>(s); ev_conv<civil_second, civil_hour>(s);
    ev_conv<civil_second, civil_day>(s); ev_conv<civil_second, civil_month>(s);
    ev_conv<civil_second, civil_year>(s);
    const civil_day cd(y, m, d);
    ev_conv<civil_day, civil_second>(cd); ev_conv<civil_day, civil_month>(cd);
    const civil_hour ch(y, m, d, hh);
    ev_conv<civil_hour, civil_day>(ch); ev_conv<civil_hour, civil_minute>(ch);
    ev_cmp(s, cd); ev_cmp(cd, s); ev_cmp(ch, civil_month(y, m)); ev_cmp(civil_year(y), s);
  }
  }
  if (fam_arith) {
  // --- C05: arithmetic and difference per alignment
  arith_panel<civil_second>(r, y, m, d, hh, mi, ss, reps);
  arith_panel<civil_minute>(r, y, m, d, hh, mi, 0, reps);
  arith_panel<civil_hour>(r, y, m, d, hh, 0, 0, reps);
  arith_panel<civil_day>(r, y, m, d, 0, 0, 0, reps);
  arith_panel<civil_month>(r, y, m, 1, 0, 0, 0, reps);
  arith_panel<civil_year>(r, y, 1, 1, 0, 0, 0, reps);
  }
  if (!fam_wday) return;
  // --- C17
  ev_wday(civil_second(y, m, d, hh, mi, ss));
  const civil_day cd(y, m, d);
  for (int wd = 0; wd < 7; ++wd) ev_nextprev(cd, wd);
}

int main(int argc, char** argv) {
  if (argc < 5) { fprintf(stderr, "usage: drv_civil <out-prefix> <shards> <seed> <tier>\n"); return 2; }
  vt::install_trap_handler();
  vt::Shards sh(argv[1], atoi(argv[2]));
  out = &sh;
  uint64_t seed = strtoull(argv[3], nullptr, 10);
  if (argc > 5) {
    fam_ctor = strstr(argv[5], "ctor") != nullptr;
    fam_arith = strstr(argv[5], "arith") != nullptr;
    fam_wday = strstr(argv[5], "wday") != nullptr;
  }
  bool thorough = strcmp(argv[4], "thorough") == 0;
  vt::Rng r(seed);
  if (thorough) special_reps = 20;
  std::vector<int64_t> es = eras();
  // every day of one 400-year cycle as a base (stride in quick), each replicated in one era chosen
  // by rotation so that all eras see all parts of the cycle over the run
  long idx = 0;
  const long stride = thorough ? 11 : 61;     // thorough: ~13k base days x 19 eras in rotation (~3M events per family)
  long phase = (long)(seed % (uint64_t)stride);
  for (int yy = 0; yy < 400; ++yy)
    for (int m = 1; m <= 12; ++m)
      for (int d = 1; d <= dim(2000 + yy, m); ++d, ++idx) {
        bool special = (m == 2 && d >= 28) || (m == 3 && d == 1) || (m == 12 && d == 31) || (m == 1 && d == 1);
        if (idx % stride != phase && !(special && (yy % 100 < 5 || yy % 100 > 95) && !thorough && (idx + seed) % 7 == 0))
          continue;
        int64_t era = es[(size_t)((idx / stride + (long)seed) % (long)es.size())];
        if (era > kMax - yy) continue;  // beyond the maximum year
        base_day(r, era + yy, m, d, thorough ? 3 : 6);
        if (fam_wday && (thorough || idx % 5 == 0)) {  // the plain modern era as well
          ev_wday(civil_second(2000 + yy, m, d, 12, 0, 0));
          for (int wd = 0; wd < 7; ++wd) ev_nextprev(civil_day(2000 + yy, m, d), wd);
        }
      }
  // the extremes
  for (int i = 0; i < 400; ++i) {
    int64_t y = r.below(2) ? kMax - (int64_t)r.below(3) : kMin + (int64_t)r.below(3);
    int m = (int)r.pick(std::vector<int>{1, 2, 3, 11, 12});
    int d = (int)r.pick(std::vector<int>{1, 2, 28, dim(y, m)});
    base_day(r, y, m, d, 3);
  }
  // carries that land exactly on or next to the representable limits: the normalised year fits
  // although naive intermediate sums may not
  {
    const int64_t ks[] = {1, 2, 3, 5, 100, 1000000, int64_t(1) << 40, 768614336404564650LL};
    for (int64_t k : ks)
      for (int j = -2; j <= 13; ++j)
        for (int side = 0; side < 2; ++side) {
          int64_t y = side ? kMin + k : kMax - k;
          vt::i128 mw = side ? (vt::i128)-12 * k + j : (vt::i128)12 * k + j;
          if (mw > kMax || mw <= kMin) continue;
          int64_t m = (int64_t)mw;
          int64_t a[6] = {y, m, (int64_t)r.range(1, 28), (int64_t)r.range(0, 23), 0, 0};
          if (fam_ctor) {
            ev_ctor<civil_second>(a);
            ev_ctor<civil_month>(a);
            a[2] = side ? 400 : -400;  // day carry pulling the year back inside
            ev_ctor<civil_day>(a);
            a[2] = edge(r);
            ev_ctor<civil_second>(a);
          }
          if (!fam_arith) continue;
          // the same through month arithmetic
          int mm0 = (int)r.range(1, 12);
          ev_add(civil_month(y, mm0), m, false);
          ev_add(civil_month(y, mm0), -m, true);
          ev_add(civil_year(y), side ? -k + (j - 5) : k + (j - 5), false);
        }
    // day / hour / minute / second carries at the extreme years
    for (int i = 0; fam_ctor && i < 300; ++i) {
      int side = (int)r.below(2);
      int64_t y = side ? kMin + (int64_t)r.below(3) : kMax - (int64_t)r.below(3);
      int64_t a[6] = {y, (int64_t)r.range(1, 12), (int64_t)r.range(1, 28), (int64_t)r.range(0, 23),
                      (int64_t)r.range(0, 59), (int64_t)r.range(0, 59)};
      int k = (int)r.range(2, 5);
      static const int64_t per_year[6] = {0, 12, 366, 8784, 527040, 31622400};
      a[k] = wadd(a[k], (side ? 1 : -1) * per_year[k] * r.range(0, 3) + r.range(-40, 40));
      ev_ctor<civil_second>(a);
    }
  }
  fprintf(stderr, "drv_civil: %llu events\n", (unsigned long long)sh.count);
  sh.close();
  return 0;
}
