// Stage 2 of the binding: the repository's own tests as a workload.  Linked into the unmodified
// gtest binaries of /repo (built with -DGOOGLE_CCTZ_VERIF), this object installs cctz_verif::api_hook
// before main() and logs every public lookup the tests perform - directly or through convert(),
// format() and parse() - as the same NDJSON events drv_zone.cc writes (Break / Make / Next / Prev),
// preceded once per zone by a Load (TZif bytes read from $TZDIR) or LoadFixed event.  checks/suite.py
// re-shards the log by zone and ZoneTrace.tla judges every event: the tests' own assertions are replaced
// by the specification's.  Zones whose data cannot be found as a file (custom sources) are skipped.
//   VT_TRACE_OUT = output file (no tracing when unset)
#include <cstdio>
#include <cstdlib>
#include <fstream>
#include <iterator>
#include <map>
#include <mutex>
#include <string>

#include "cctz/civil_time.h"
#include "cctz/time_zone.h"
#include "time_zone_fixed.h"
#include "trace.h"

namespace cctz_verif {
extern void (*api_hook)(int op, const cctz::time_zone* tz, const void* arg, const void* result, bool ok);
}

namespace {
using namespace cctz;
using vt::F;
using vt::W;

std::mutex g_mu;
FILE* g_out = nullptr;
std::map<std::string, int> g_zone;  // name -> 1 known / 0 skipped
thread_local bool g_inside = false;
long g_events = 0, g_skipped = 0;

std::string bytes_json(const std::string& b) {
  std::string s = "[";
  char buf[8];
  for (size_t i = 0; i < b.size(); ++i) {
    snprintf(buf, sizeof buf, i ? ",%d" : "%d", (unsigned char)b[i]);
    s += buf;
  }
  return s + "]";
}
int64_t ut(const time_point<seconds>& tp) { return tp.time_since_epoch().count(); }

// first sight of a zone: emit its Load / LoadFixed line; returns whether events for it are logged
bool known(const time_zone& tz, const std::string& name) {
  auto it = g_zone.find(name);
  if (it != g_zone.end()) return it->second != 0;
  int ok = 0;
  seconds off;
  if (FixedOffsetFromName(name, &off)) {
    fprintf(g_out, "{\"e\":\"LoadFixed\",\"z\":0,\"zn\":%s,\"name\":\"fixed\",\"off\":%lld,\"ok\":1}\n", vt::jstr(name).c_str(),
            (long long)off.count());
    ok = 1;
  } else {
    const char* dir = getenv("TZDIR");
    std::string path = (!name.empty() && name[0] == '/') ? name : std::string(dir ? dir : "/usr/share/zoneinfo") + "/" + name;
    std::ifstream zf(path, std::ios::binary);
    if (zf) {
      std::string bytes((std::istreambuf_iterator<char>(zf)), std::istreambuf_iterator<char>());
      if (bytes.size() > 4 && bytes.compare(0, 4, "TZif") == 0) {
        fprintf(g_out, "{\"e\":\"Load\",\"z\":0,\"zn\":%s,\"name\":%s,\"bytes\":%s,\"desc\":%s,\"ok\":1,\"isutc\":%d,\"ub\":0,\"relaxed\":0}\n",
                vt::jstr(name).c_str(), vt::jstr(name).c_str(), bytes_json(bytes).c_str(), bytes_json(tz.description()).c_str(),
                tz == utc_time_zone() ? 1 : 0);
        ok = 1;
      }
    }
  }
  g_zone[name] = ok;
  return ok != 0;
}

const char* kindname(time_zone::civil_lookup::civil_kind k) {
  return k == time_zone::civil_lookup::UNIQUE ? "UNIQUE" : k == time_zone::civil_lookup::SKIPPED ? "SKIPPED" : "REPEATED";
}

void hook(int op, const time_zone* tz, const void* arg, const void* res, bool ok) {
  if (g_inside || g_out == nullptr) return;
  g_inside = true;
  std::lock_guard<std::mutex> l(g_mu);
  const std::string name = tz->name();
  if (!known(*tz, name)) {
    ++g_skipped;
    g_inside = false;
    return;
  }
  std::string zn = ",\"z\":0,\"zn\":" + vt::jstr(name);
  std::string s;
  switch (op) {
    case 0: {
      const auto& tp = *static_cast<const time_point<seconds>*>(arg);
      const auto& al = *static_cast<const time_zone::absolute_lookup*>(res);
      s = "{\"e\":\"Break\"" + zn + ",\"t\":" + W(ut(tp)) + ",\"cs\":" + F(al.cs) + ",\"off\":" + std::to_string(al.offset) +
          ",\"dst\":" + (al.is_dst ? "1" : "0") + ",\"abbr\":" + bytes_json(al.abbr ? al.abbr : "") + ",\"ub\":0}";
      break;
    }
    case 1: {
      const auto& cs = *static_cast<const civil_second*>(arg);
      const auto& cl = *static_cast<const time_zone::civil_lookup*>(res);
      s = "{\"e\":\"Make\"" + zn + ",\"cs\":" + F(cs) + ",\"kind\":\"" + kindname(cl.kind) + "\",\"pre\":" + W(ut(cl.pre)) +
          ",\"trans\":" + W(ut(cl.trans)) + ",\"post\":" + W(ut(cl.post)) + ",\"ub\":0}";
      break;
    }
    default: {
      const auto& tp = *static_cast<const time_point<seconds>*>(arg);
      const auto* tr = static_cast<const time_zone::civil_transition*>(res);
      s = std::string("{\"e\":\"") + (op == 2 ? "Next" : "Prev") + "\"" + zn + ",\"t\":" + W(ut(tp)) + ",\"ok\":" + (ok ? "1" : "0");
      if (ok && tr) s += ",\"from\":" + F(tr->from) + ",\"to\":" + F(tr->to);
      else s += ",\"from\":[[1],1,1,0,0,0],\"to\":[[1],1,1,0,0,0]";
      s += ",\"ub\":0}";
    }
  }
  fputs(s.c_str(), g_out);
  fputc('\n', g_out);
  ++g_events;
  g_inside = false;
}

struct Install {
  Install() {
    const char* p = getenv("VT_TRACE_OUT");
    if (!p) return;
    g_out = fopen(p, "w");
    if (g_out) cctz_verif::api_hook = hook;
  }
  ~Install() {
    if (!g_out) return;
    cctz_verif::api_hook = nullptr;
    fflush(g_out);
    fprintf(stderr, "test_tracer: %ld events, %ld skipped (zones without a TZif file), %zu zones\n", g_events, g_skipped, g_zone.size());
  }
} g_install;
}  // namespace
