// Driver for C08 (format) and C07 (format -> parse round trip).
// Input lines:  F <hex format> <hex stretch>...   : format events; the stretches are the parts of the
//                                                   format the *specification* delegates to strftime
//                                                   (exported by TLC, spec/GenFormat.tla) - the driver
//                                                   records the C library's answer for each
//               L <hex format>                    : lossless format for round-trip events
// For every event the lookup() result of the same call is logged: C08 is relative to it.
// usage: drv_format <input> <out-prefix> <shards> <seed> <tier>      (TZDIR must point to zone data)
#include <cstring>
#include <ctime>
#include <fstream>
#include <limits>
#include <sstream>
#include <atomic>
#include <chrono>
#include <thread>
#include <vector>

#include "cctz/time_zone.h"
#include "trace.h"

using namespace cctz;
typedef time_point<seconds> TP;
using vt::W;
static const int64_t kMax = std::numeric_limits<int64_t>::max(), kMin = std::numeric_limits<int64_t>::min();

static std::string unhex(const std::string& h) {
  std::string o;
  for (size_t i = 0; i + 1 < h.size(); i += 2) o.push_back((char)strtol(h.substr(i, 2).c_str(), nullptr, 16));
  return o;
}
static std::string bj(const std::string& b) {
  std::string s = "[";
  char buf[8];
  for (size_t i = 0; i < b.size(); ++i) { snprintf(buf, sizeof buf, i ? ",%d" : "%d", (unsigned char)b[i]); s += buf; }
  return s + "]";
}
// the broken-down fields format() hands to strftime (time_zone_format.cc: ToTM)
static std::tm to_tm(const time_zone::absolute_lookup& al) {
  std::tm tm{};
  tm.tm_sec = al.cs.second(); tm.tm_min = al.cs.minute(); tm.tm_hour = al.cs.hour();
  tm.tm_mday = al.cs.day(); tm.tm_mon = al.cs.month() - 1;
  if (al.cs.year() < std::numeric_limits<int>::min() + 1900) tm.tm_year = std::numeric_limits<int>::min();
  else if (al.cs.year() - 1900 > std::numeric_limits<int>::max()) tm.tm_year = std::numeric_limits<int>::max();
  else tm.tm_year = static_cast<int>(al.cs.year() - 1900);
  tm.tm_wday = (static_cast<int>(get_weekday(al.cs)) + 1) % 7;
  tm.tm_yday = get_yearday(al.cs) - 1;
  tm.tm_isdst = al.is_dst ? 1 : 0;
  return tm;
}
// what the C library renders for the stretch (ample buffer; the specification knows about the
// bounded buffer format() uses)
static std::string libc_strftime(const std::string& fmt, const std::tm& tm) {
  if (fmt.empty()) return std::string();
  std::vector<char> buf(fmt.size() * 64 + 65536);
  std::size_t len = strftime(&buf[0], buf.size(), fmt.c_str(), &tm);
  return std::string(&buf[0], len);
}

// A %Z carrying a flag, width or E/O modifier is handed to the C library, which prints the PROCESS's tzname[] for it (the
// tm it gets has no zone): glibc rewrites tzname[] inside tzset(), which other strftime calls trigger, so under concurrent
// callers that text is the C library's own race and says nothing about cctz - such formats stay out of the concurrent pass.
static bool reads_libc_zone(const std::string& f) {
  // any 'Z' not directly behind a '%' may be such a conversion (or literal text: leaving those out as well costs nothing)
  for (size_t i = 0; i < f.size(); ++i)
    if (f[i] == 'Z' && (i == 0 || f[i - 1] != '%')) return true;
  return false;
}

int main(int argc, char** argv) {
  if (argc < 6) return 2;
  vt::install_trap_handler();
  std::ifstream in(argv[1]);
  vt::Shards out(argv[2], atoi(argv[3]));
  vt::Rng r(strtoull(argv[4], nullptr, 10));
  bool thorough = strcmp(argv[5], "thorough") == 0;
  std::vector<time_zone> zones;
  zones.push_back(utc_time_zone());
  for (const char* n : {"America/New_York", "Australia/Lord_Howe", "Asia/Kolkata", "Africa/Monrovia", "Europe/Dublin", "Pacific/Apia"}) {
    time_zone tz;
    if (load_time_zone(n, &tz)) zones.push_back(tz);
  }
  for (long o : {19815L, -30L, 86400L, -86399L, -45L * 60, 3600L * 14, 1L, -3600L * 12 - 59})
    zones.push_back(fixed_time_zone(seconds(o)));
  const std::vector<int64_t> inst = {0, -1, 1, 1000000000, 1700000000, 1709210096, -2208988800LL, -62135596800LL, -62135596801LL,
                                     -62167219200LL, -62167219201LL, -62198755200LL, 253402300799LL, 253402300800LL, 32503680000LL,
                                     951782400, 1078012800, 1230768000, 1293839999, 4102444800LL, -(int64_t(1) << 59), int64_t(1) << 59,
                                     kMin, kMin + 1, kMax, kMax - 1, 67767976233532799LL, -67768100567971200LL, 1e15, -1e15, 915148799,
                                     1104537600, 1483228800 - 1, 1167609600};
  const std::vector<int64_t> fss = {0, 1, 100000000000000LL, 999999999999999LL, 123456789012345LL, 500000000000000LL, 1000000LL, 120000000000000LL};
  std::string line;
  uint64_t k = 0;
  struct Sample { std::string fmt; TP tp; int64_t fs; const time_zone* tz; std::string out; };
  std::vector<Sample> samples;
  while (std::getline(in, line)) {
    std::istringstream is(line);
    std::string tag, hf;
    is >> tag >> hf;
    std::string fmt = hf == "-" ? std::string() : unhex(hf);
    std::vector<std::string> stretches;
    std::string h;
    while (is >> h) stretches.push_back(unhex(h));
    int reps = tag == "L" ? (thorough ? 24 : 6) : (thorough ? 12 : 4);
    for (int i = 0; i < reps; ++i, ++k) {
      const time_zone& tz = zones[(size_t)((k * 7 + r.below(3)) % zones.size())];
      int64_t t = (i % 4 == 3) ? (int64_t)r.next() : (i % 4 == 2) ? r.range(-4000000000LL, 8000000000LL) : inst[(size_t)((k * 5 + i) % inst.size())];
      int64_t fs = fss[(size_t)((k + i * 3) % fss.size())];
      if (r.below(5) == 0) fs = (int64_t)(r.next() % 1000000000000000ULL);
      TP tp = TP(seconds(t));
      time_zone::absolute_lookup al = tz.lookup(tp);
      std::string hdr = ",\"fmt\":" + bj(fmt) + ",\"t\":" + W(t) + ",\"fs\":" + W(fs) + ",\"cs\":" + vt::F(al.cs) + ",\"off\":" +
                        std::to_string(al.offset) + ",\"dst\":" + (al.is_dst ? "1" : "0") + ",\"abbr\":" + bj(al.abbr);
      int ub;
      std::string o;
      VT_GUARD(ub, o = detail::format(fmt, tp, detail::femtoseconds(fs), tz));
      // the same call again after an unrelated one that needs a much larger scratch area: no call may leave anything behind
      int hist = 1;
      if (tag == "F" && !ub) {
        int ubh = 0;
        std::string o2;
        static const std::string big = "%a " + std::string(700, '-') + " %c%c%c%c";
        VT_GUARD(ubh, (void)detail::format(big, tp, detail::femtoseconds(0), tz); o2 = detail::format(fmt, tp, detail::femtoseconds(fs), tz));
        if (ubh || o2 != o) hist = 0;
        // ... and after unrelated PARSE calls that go through the week-number code (%U, %W) for the same and for another year
        if (hist) {
          static const char* kWk[] = {"%Y-%U-%w", "%Y-%W-%u"};
          for (const char* wf : kWk) {
            std::string o3;
            VT_GUARD(ubh, {
              TP pt; detail::femtoseconds pf(0);
              std::string wt = detail::format(wf, tp, detail::femtoseconds(0), tz);
              (void)detail::parse(wf, wt, tz, &pt, &pf);
              (void)detail::parse(wf, "2017-01-0", tz, &pt, &pf);
              (void)detail::parse(wf, wt, tz, &pt, &pf);
              o3 = detail::format(fmt, tp, detail::femtoseconds(fs), tz);
            });
            if (ubh || o3 != o) hist = 0;
          }
        }
      }
      if (tag == "F" && !ub && hist && (k % 3 == 0 || samples.size() < 600) && samples.size() < 6000 && !reads_libc_zone(fmt))
        samples.push_back(Sample{fmt, tp, fs, &tz, o});
      if (tag == "F") {
        std::tm tm = to_tm(al);
        std::string env = "[";
        bool firstj = true;
        for (size_t j = 0; j < stretches.size(); ++j) {
          // a stretch with a NUL cannot be handed to the C library faithfully: no answer is recorded for it
          if (stretches[j].find('\0') != std::string::npos) continue;
          env += (firstj ? "" : ",") + std::string("[") + bj(stretches[j]) + "," + bj(libc_strftime(stretches[j], tm)) + "]";
          firstj = false;
        }
        env += "]";
        out.emit("{\"e\":\"Format\"" + hdr + ",\"out\":" + bj(o) + ",\"env\":" + env + ",\"hist\":" + std::to_string(hist) + ",\"ub\":" + std::to_string(ub) + "}");
      } else {
        // C07: parse what format produced, in another zone; it must give back the instant
        const time_zone& other = zones[(size_t)((k * 3 + 1) % zones.size())];
        TP t2;
        detail::femtoseconds fs2(0);
        bool ok = false;
        int ub2 = 0;
        if (!ub) VT_GUARD(ub2, ok = detail::parse(fmt, o, other, &t2, &fs2));
        out.emit("{\"e\":\"RT7\"" + hdr + ",\"text\":" + bj(o) + ",\"ok\":" + (ok && !ub2 ? "1" : "0") + ",\"t2\":" +
                 W(ok && !ub2 ? t2.time_since_epoch().count() : 0) + ",\"fs2\":" + W(ok && !ub2 ? fs2.count() : 0) +
                 ",\"ub\":" + std::to_string(ub | ub2) + "}");
      }
    }
  }
  // format() is a function of its arguments under concurrent callers too: the calls judged above, repeated from several
  // threads at once in different orders (different formats, years and zones side by side), give the judged texts again
  if (!samples.empty()) {
    unsigned nth = std::thread::hardware_concurrency();
    nth = nth < 4 ? 4 : nth > 12 ? 12 : nth;
    std::atomic<long> calls(0), mism(0);
    std::atomic<long> firstbad(-1);
    const auto until = std::chrono::steady_clock::now() + std::chrono::milliseconds(thorough ? 6000 : 2500);
    std::vector<std::thread> th;
    for (unsigned t = 0; t < nth; ++t)
      th.emplace_back([&, t] {
        const size_t n = samples.size();
        size_t i = (size_t)t * 7919 % n;
        const size_t step = 1 + (size_t)t * 2;       // co-prime walks differ per thread
        long lc = 0, lm = 0;
        while (std::chrono::steady_clock::now() < until) {
          for (int b = 0; b < 256; ++b) {
            const Sample& sm = samples[i];
            if (detail::format(sm.fmt, sm.tp, detail::femtoseconds(sm.fs), *sm.tz) != sm.out) { ++lm; long exp = -1; firstbad.compare_exchange_strong(exp, (long)i); }
            i = (i + step) % n;
            ++lc;
          }
        }
        calls += lc; mism += lm;
      });
    for (auto& x : th) x.join();
    long fb = firstbad.load();
    out.emit("{\"e\":\"Conc\",\"threads\":" + std::to_string(nth) + ",\"samples\":" + std::to_string(samples.size()) + ",\"calls\":" +
             std::to_string(calls.load()) + ",\"mismatch\":" + std::to_string(mism.load()) + ",\"fmt\":" + bj(fb >= 0 ? samples[(size_t)fb].fmt : std::string()) +
             ",\"ub\":0}");
  }
  fprintf(stderr, "drv_format: %llu events\n", (unsigned long long)out.count);
  out.close();
  return 0;
}
