// Driver for C16: calls cctz::ParsePosixSpec (src/time_zone_posix.h) on every input string with the
// result struct's plain fields pre-filled with 0xAA and again with 0x55 (then also with stale abbreviations), and logs verdict and every
// field the header promises.  No expected values here: spec/PosixTrace.tla decides.
// usage: drv_posix <hex-lines-file> <out-prefix> <shards>
#include <fstream>
#include <iostream>

#include "time_zone_posix.h"
#include "trace.h"

using namespace cctz;

static std::string unhex(const std::string& h) {
  std::string o;
  for (size_t i = 0; i + 1 < h.size(); i += 2) o.push_back((char)strtol(h.substr(i, 2).c_str(), nullptr, 16));
  return o;
}
static std::string bytes_json(const std::string& b) {
  std::string s = "[";
  char buf[8];
  for (size_t i = 0; i < b.size(); ++i) { snprintf(buf, sizeof buf, i ? ",%d" : "%d", (unsigned char)b[i]); s += buf; }
  return s + "]";
}
// raw view of a PosixTransition without evaluating a possibly invalid enum value
static std::string tr_json(const PosixTransition& t) {
  unsigned int fmt = 0;
  memcpy(&fmt, &t.date.fmt, sizeof fmt < sizeof t.date.fmt ? sizeof fmt : sizeof t.date.fmt);
  long long a = 0, b = 0, c = 0;
  if (fmt == (unsigned)PosixTransition::J) a = t.date.j.day;
  else if (fmt == (unsigned)PosixTransition::N) a = t.date.n.day;
  else if (fmt == (unsigned)PosixTransition::M) { a = t.date.m.month; b = t.date.m.week; c = t.date.m.weekday; }
  long long tm = t.time.offset;
  auto clampi = [](long long v) { return v > 2000000000LL ? 2000000000LL : v < -2000000000LL ? -2000000000LL : v; };
  char buf[160];
  snprintf(buf, sizeof buf, "{\"fmt\":%lld,\"a\":%lld,\"b\":%lld,\"c\":%lld,\"time\":%lld}",
           clampi(fmt > 3 ? 99 : fmt), clampi(a), clampi(b), clampi(c), clampi(tm));
  return buf;
}

int main(int argc, char** argv) {
  if (argc < 4) return 2;
  vt::install_trap_handler();
  std::ifstream in(argv[1]);
  vt::Shards out(argv[2], atoi(argv[3]));
  std::string line;
  while (std::getline(in, line)) {
    std::string spec = unhex(line);
    for (int fill : {0xAA, 0x55}) {
      PosixTimeZone res;
      memset(&res.std_offset, fill, sizeof res.std_offset);
      memset(&res.dst_offset, fill, sizeof res.dst_offset);
      memset(&res.dst_start, fill, sizeof res.dst_start);
      memset(&res.dst_end, fill, sizeof res.dst_end);
      // the second pass re-uses a result that holds another zone's abbreviations (as a caller's variable may)
      if (fill == 0x55) { res.std_abbr = "OLDSTD"; res.dst_abbr = "OLDDST"; }
      int ub;
      bool ok = false;
      VT_GUARD(ub, ok = ParsePosixSpec(spec, &res));
      auto clampi = [](long long v) { return v > 2000000000LL ? 2000000000LL : v < -2000000000LL ? -2000000000LL : v; };
      std::string s = "{\"e\":\"Posix\",\"s\":" + bytes_json(spec) + ",\"fill\":" + std::to_string(fill) +
                      ",\"ok\":" + (ok && !ub ? "1" : "0") + ",\"ub\":" + std::to_string(ub);
      if (ok && !ub) {
        s += ",\"std_abbr\":" + bytes_json(res.std_abbr) + ",\"std_off\":" + std::to_string(clampi(res.std_offset)) +
             ",\"dst_abbr\":" + bytes_json(res.dst_abbr) + ",\"dst_off\":" + std::to_string(clampi(res.dst_offset)) +
             ",\"start\":" + tr_json(res.dst_start) + ",\"end\":" + tr_json(res.dst_end);
      }
      out.emit(s + "}");
    }
  }
  fprintf(stderr, "drv_posix: %llu events\n", (unsigned long long)out.count);
  out.close();
  return 0;
}
