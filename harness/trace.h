// Shared helpers for the cctz verification drivers: NDJSON event writer with the wide-integer
// encoding the TLA+ module Wide reads directly ([sign, limb0, limb1, ...], base 10^4,
// little-endian, no most-significant zero limb, zero = [1]), a seeded PRNG, and a guard that turns
// an UBSan trap (SIGILL from -fsanitize-trap=undefined) into a per-call flag.
#ifndef VERIF_TRACE_H_
#define VERIF_TRACE_H_

#include <setjmp.h>
#include <signal.h>
#include <unistd.h>

#include <cstdint>
#include <cstdio>
#include <cstdlib>
#include <cstring>
#include <string>
#include <vector>

#include "cctz/civil_time.h"

namespace vt {

typedef __int128 i128;

inline void wide(std::string* s, i128 v) {
  *s += (v < 0) ? "[-1" : "[1";
  unsigned __int128 m = (v < 0) ? (unsigned __int128)(-(v + 1)) + 1 : (unsigned __int128)v;
  char buf[16];
  while (m != 0) {
    snprintf(buf, sizeof buf, ",%d", (int)(m % 10000));
    *s += buf;
    m /= 10000;
  }
  *s += "]";
}
inline std::string W(i128 v) { std::string s; wide(&s, v); return s; }

// bytes -> JSON string whose code points are the byte values (NUL and >= 0x80 included)
inline std::string jstr(const std::string& b) {
  std::string s = "\"";
  char buf[8];
  for (unsigned char c : b) {
    if (c == '"' || c == '\\') { s += '\\'; s += (char)c; }
    else if (c < 0x20 || c >= 0x7f) { snprintf(buf, sizeof buf, "\\u%04x", c); s += buf; }
    else s += (char)c;
  }
  return s + "\"";
}
inline std::string jstr(const char* p) { return jstr(std::string(p ? p : "")); }

// civil fields [yearW, mon, day, hh, mm, ss]
template <typename CT>
inline std::string F(const CT& c) {
  std::string s = "[";
  wide(&s, c.year());
  char buf[64];
  snprintf(buf, sizeof buf, ",%d,%d,%d,%d,%d]", c.month(), c.day(), c.hour(), c.minute(), c.second());
  return s + buf;
}

struct Rng {
  uint64_t s;
  explicit Rng(uint64_t seed) : s(seed * 0x9E3779B97F4A7C15ull + 0x1234567ull) {}
  uint64_t next() {
    uint64_t z = (s += 0x9E3779B97F4A7C15ull);
    z = (z ^ (z >> 30)) * 0xBF58476D1CE4E5B9ull;
    z = (z ^ (z >> 27)) * 0x94D049BB133111EBull;
    return z ^ (z >> 31);
  }
  uint64_t below(uint64_t n) { return n ? next() % n : 0; }
  int64_t range(int64_t lo, int64_t hi) {  // inclusive
    return (int64_t)((uint64_t)lo + below((uint64_t)hi - (uint64_t)lo + 1));
  }
  template <typename T> const T& pick(const std::vector<T>& v) { return v[below(v.size())]; }
};

// ---- UB trap guard -------------------------------------------------------------------------
static sigjmp_buf g_jb;
static volatile sig_atomic_t g_armed = 0;
static void trap_handler(int sig) {
  if (g_armed) { g_armed = 0; siglongjmp(g_jb, 1); }
  // not inside a guarded call: die loudly (the runner reports a crash)
  const char msg[] = "FATAL: unguarded trap/crash signal\n";
  (void)!write(2, msg, sizeof msg - 1);
  _exit(70);
}
inline void install_trap_handler() {
  struct sigaction sa;
  memset(&sa, 0, sizeof sa);
  sa.sa_handler = trap_handler;
  sa.sa_flags = SA_NODEFER;
  sigaction(SIGILL, &sa, nullptr);
  sigaction(SIGTRAP, &sa, nullptr);
  sigaction(SIGFPE, &sa, nullptr);
}
// GUARD(ub, statement): ub = 1 iff the statement executed an undefined operation that trapped.
#define VT_GUARD(ub, ...)                                        \
  do {                                                           \
    sigjmp_buf vt_saved_;                                        \
    const sig_atomic_t vt_was_ = vt::g_armed;                    \
    memcpy(&vt_saved_, &vt::g_jb, sizeof vt_saved_);             \
    (ub) = 0;                                                    \
    if (sigsetjmp(vt::g_jb, 1) == 0) {                           \
      vt::g_armed = 1;                                           \
      __VA_ARGS__;                                               \
    } else {                                                     \
      (ub) = 1;                                                  \
    }                                                            \
    memcpy(&vt::g_jb, &vt_saved_, sizeof vt_saved_);             \
    vt::g_armed = vt_was_;                                       \
  } while (0)

// Sharded output: events are distributed round-robin over N files so that N JVMs validate them.
struct Shards {
  std::vector<FILE*> f;
  size_t n = 0;
  uint64_t count = 0;
  Shards(const std::string& prefix, int k) {
    for (int i = 0; i < k; ++i) {
      std::string p = prefix + "." + std::to_string(i) + ".ndjson";
      FILE* fp = fopen(p.c_str(), "w");
      if (!fp) { perror(p.c_str()); exit(2); }
      f.push_back(fp);
    }
  }
  void emit(const std::string& line) {
    FILE* fp = f[n++ % f.size()];
    fputs(line.c_str(), fp);
    fputc('\n', fp);
    ++count;
  }
  void close() { for (FILE* fp : f) fclose(fp); f.clear(); }
};

}  // namespace vt
#endif
