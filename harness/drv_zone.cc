// Driver for the zone properties (C01 C02 C03 C06 C10 C11 C14, and the conversion half of C12):
// loads TZif files through a replaced zone_info_source_factory, runs panels of queries against
// the real library and logs one NDJSON event per call (arguments, results, ub flag).  It contains
// no expected values; spec/ZoneTrace.tla decodes the very bytes logged in the Load event and is
// the only oracle.  Instants for the panels come from the library's own transition chain (they
// are only inputs) plus fixed boundary values and optional spec-generated panels (file, -P).
//
// usage: drv_zone <zone-list> <out-prefix> <shards> <seed> <quick|thorough> <families> [panel.ndjson]
//   zone-list: lines "<name>\t<path>"; families: subset of break,make,rt,convert,limits,trans,history
#include <algorithm>
#include <cinttypes>
#include <fstream>
#include <functional>
#include <limits>
#include <atomic>
#include <map>
#include <memory>
#include <mutex>
#include <set>
#include <sstream>

#include "cctz/time_zone.h"
#include "cctz/zone_info_source.h"
#include "trace.h"

using namespace cctz;
using vt::F;
using vt::W;

typedef time_point<seconds> TP;
static const int64_t kMax = std::numeric_limits<int64_t>::max();
static const int64_t kMin = std::numeric_limits<int64_t>::min();
static const int64_t k400 = 146097LL * 86400;

// ---- in-memory zone source ---------------------------------------------------------------
static std::mutex g_mu;
static std::map<std::string, std::string> g_files;  // name -> bytes
static int g_factory_calls = 0;

class MemSource : public ZoneInfoSource {
 public:
  explicit MemSource(const std::string& d) : d_(d), pos_(0) {}
  std::size_t Read(void* ptr, std::size_t size) override {
    std::size_t n = std::min(size, d_.size() - pos_);
    memcpy(ptr, d_.data() + pos_, n);
    pos_ += n;
    return n;
  }
  int Skip(std::size_t offset) override {
    pos_ += std::min(offset, d_.size() - pos_);
    return 0;
  }
 private:
  std::string d_;
  std::size_t pos_;
};

// A source that, right after delivering a larger piece of its data, loads ANOTHER zone (the load mutex is recursive to
// allow exactly this: sources that consult other zones, links resolved by loading their target).  The outer zone is
// still judged against its own bytes alone: nothing of the nested load may show in it.
static std::string g_nest_small, g_nest_prev;   // what nested names serve: a minimal image / the previous file's bytes
static std::atomic<long> g_nested_loads{0};
class NestSource : public MemSource {
 public:
  NestSource(const std::string& d, const std::string& key) : MemSource(d), key_(key), n_(0) {}
  std::size_t Read(void* ptr, std::size_t size) override {
    std::size_t r = MemSource::Read(ptr, size);
    if (size > 44 && n_ < 2) {
      time_zone other;
      (void)load_time_zone(key_ + "@n" + std::to_string(n_++), &other);
      ++g_nested_loads;
    }
    return r;
  }
 private:
  std::string key_;
  int n_;
};

static std::unique_ptr<ZoneInfoSource> Factory(
    const std::string& name,
    const std::function<std::unique_ptr<ZoneInfoSource>(const std::string& name)>& fallback) {
  std::lock_guard<std::mutex> l(g_mu);
  ++g_factory_calls;
  size_t at = name.find("@n");
  if (at != std::string::npos)
    return std::unique_ptr<ZoneInfoSource>(new MemSource((name.back() == '0' && !g_nest_prev.empty()) ? g_nest_prev : g_nest_small));
  auto it = g_files.find(name);
  if (it == g_files.end()) return nullptr;
  // every third file is served by a nesting source ("V/<idx>/...")
  if (name.compare(0, 2, "V/") == 0 && atoi(name.c_str() + 2) % 3 == 0)
    return std::unique_ptr<ZoneInfoSource>(new NestSource(it->second, name));
  return std::unique_ptr<ZoneInfoSource>(new MemSource(it->second));
}
// a minimal version-2 image: no transitions, one type (+2 h "BBB"), footer BBB-2
static std::string minimal_image() {
  std::string blk;
  auto be32 = [](uint32_t v) { std::string x(4, '\0'); x[0] = (char)(v >> 24); x[1] = (char)(v >> 16); x[2] = (char)(v >> 8); x[3] = (char)v; return x; };
  std::string head = std::string("TZif2") + std::string(15, '\0') + be32(0) + be32(0) + be32(0) + be32(0) + be32(1) + be32(4);
  std::string data = be32(7200) + std::string(1, '\0') + std::string(1, '\0') + std::string("BBB\0", 4);
  return head + data + head + data + "\nBBB-2\n";
}
namespace cctz_extension {
ZoneInfoSourceFactory zone_info_source_factory = Factory;
}

// ---- helpers ---------------------------------------------------------------------------------
static inline TP tp(int64_t t) { return TP(seconds(t)); }
static inline int64_t ut(const TP& t) { return t.time_since_epoch().count(); }
static int64_t sat_add(int64_t a, int64_t b) {
  vt::i128 s = (vt::i128)a + b;
  if (s > kMax) return kMax;
  if (s < kMin) return kMin;
  return (int64_t)s;
}
static std::string bytes_json(const std::string& b) {
  std::string s = "[";
  char buf[8];
  for (size_t i = 0; i < b.size(); ++i) {
    snprintf(buf, sizeof buf, i ? ",%d" : "%d", (unsigned char)b[i]);
    s += buf;
  }
  return s + "]";
}

struct Ctx {
  FILE* f;
  int z;  // ordinal of the zone's Load line within this shard file
  time_zone tz;
  uint64_t events;
};
static bool fam_break, fam_make, fam_rt, fam_convert, fam_limits, fam_trans, fam_history, fam_twin, fam_small;
static volatile const char* g_current_zone = "";

static void emit(Ctx& c, const std::string& s) {
  fputs(s.c_str(), c.f);
  fputc('\n', c.f);
  ++c.events;
}

static void ev_break(Ctx& c, int64_t t) {
  int ub;
  time_zone::absolute_lookup al;
  VT_GUARD(ub, al = c.tz.lookup(tp(t)));
  if (ub) {
    emit(c, "{\"e\":\"Break\",\"z\":" + std::to_string(c.z) + ",\"t\":" + W(t) +
                ",\"cs\":[[1],1,1,0,0,0],\"off\":0,\"dst\":0,\"abbr\":[],\"ub\":1}");
    return;
  }
  emit(c, "{\"e\":\"Break\",\"z\":" + std::to_string(c.z) + ",\"t\":" + W(t) + ",\"cs\":" + F(al.cs) +
              ",\"off\":" + std::to_string(al.offset) + ",\"dst\":" + (al.is_dst ? "1" : "0") +
              ",\"abbr\":" + bytes_json(al.abbr ? al.abbr : "") + ",\"ub\":0}");
}
static const char* kindname(time_zone::civil_lookup::civil_kind k) {
  return k == time_zone::civil_lookup::UNIQUE ? "UNIQUE"
         : k == time_zone::civil_lookup::SKIPPED ? "SKIPPED" : "REPEATED";
}
static bool ev_make(Ctx& c, const civil_second& cs, time_zone::civil_lookup* out = nullptr) {
  int ub;
  time_zone::civil_lookup cl;
  VT_GUARD(ub, cl = c.tz.lookup(cs));
  if (ub) {
    emit(c, "{\"e\":\"Make\",\"z\":" + std::to_string(c.z) + ",\"cs\":" + F(cs) +
                ",\"kind\":\"UB\",\"pre\":[1],\"trans\":[1],\"post\":[1],\"ub\":1}");
    return false;
  }
  emit(c, "{\"e\":\"Make\",\"z\":" + std::to_string(c.z) + ",\"cs\":" + F(cs) + ",\"kind\":\"" +
              kindname(cl.kind) + "\",\"pre\":" + W(ut(cl.pre)) + ",\"trans\":" + W(ut(cl.trans)) +
              ",\"post\":" + W(ut(cl.post)) + ",\"ub\":0}");
  if (out) *out = cl;
  return true;
}
// input-building conversion: a trap inside it must not lose the rest of the zone's panel (the instant itself is
// judged by its own Break event elsewhere); the zone is marked and a harmless stand-in is used
static bool g_panel_ub = false;
static civil_second sconv(Ctx& c, int64_t t) {
  int ub;
  civil_second r;
  VT_GUARD(ub, r = convert(tp(t), c.tz));
  if (ub) { g_panel_ub = true; return civil_second(1970, 1, 1, 0, 0, 0); }
  return r;
}
static void ev_convert(Ctx& c, const civil_second& cs) {
  int ub;
  TP r;
  VT_GUARD(ub, r = convert(cs, c.tz));
  emit(c, "{\"e\":\"Convert\",\"z\":" + std::to_string(c.z) + ",\"cs\":" + F(cs) + ",\"t\":" +
              W(ub ? 0 : ut(r)) + ",\"ub\":" + std::to_string(ub) + "}");
}
// C03: t -> cs -> lookup(cs)
static void ev_rt(Ctx& c, int64_t t) {
  int ub;
  civil_second cs;
  time_zone::civil_lookup cl;
  VT_GUARD(ub, cs = convert(tp(t), c.tz); cl = c.tz.lookup(cs));
  if (ub) {
    emit(c, "{\"e\":\"RT\",\"z\":" + std::to_string(c.z) + ",\"t\":" + W(t) +
                ",\"cs\":[[1],1,1,0,0,0],\"kind\":\"UB\",\"pre\":[1],\"post\":[1],\"ub\":1}");
    return;
  }
  emit(c, "{\"e\":\"RT\",\"z\":" + std::to_string(c.z) + ",\"t\":" + W(t) + ",\"cs\":" + F(cs) +
              ",\"kind\":\"" + kindname(cl.kind) + "\",\"pre\":" + W(ut(cl.pre)) + ",\"post\":" +
              W(ut(cl.post)) + ",\"ub\":0}");
}
// C03 converse: cs -> instants -> civil again
static void ev_rt2(Ctx& c, const civil_second& cs) {
  int ub;
  time_zone::civil_lookup cl;
  civil_second a, b;
  VT_GUARD(ub, cl = c.tz.lookup(cs); a = convert(cl.pre, c.tz); b = convert(cl.post, c.tz));
  if (ub) {
    emit(c, "{\"e\":\"RT2\",\"z\":" + std::to_string(c.z) + ",\"cs\":" + F(cs) +
                ",\"kind\":\"UB\",\"pre\":[1],\"post\":[1],\"cpre\":[[1],1,1,0,0,0],\"cpost\":[[1],1,1,0,0,0],\"ub\":1}");
    return;
  }
  emit(c, "{\"e\":\"RT2\",\"z\":" + std::to_string(c.z) + ",\"cs\":" + F(cs) + ",\"kind\":\"" +
              kindname(cl.kind) + "\",\"pre\":" + W(ut(cl.pre)) + ",\"post\":" + W(ut(cl.post)) +
              ",\"cpre\":" + F(a) + ",\"cpost\":" + F(b) + ",\"ub\":0}");
}
static bool ev_trans(Ctx& c, bool next, int64_t t, time_zone::civil_transition* out = nullptr) {
  int ub;
  bool ok = false;
  time_zone::civil_transition tr;
  VT_GUARD(ub, ok = next ? c.tz.next_transition(tp(t), &tr) : c.tz.prev_transition(tp(t), &tr));
  std::string s = std::string("{\"e\":\"") + (next ? "Next" : "Prev") + "\",\"z\":" + std::to_string(c.z) +
                  ",\"t\":" + W(t) + ",\"ok\":" + ((ok && !ub) ? "1" : "0");
  if (ok && !ub) s += ",\"from\":" + F(tr.from) + ",\"to\":" + F(tr.to);
  else s += ",\"from\":[[1],1,1,0,0,0],\"to\":[[1],1,1,0,0,0]";
  s += ",\"ub\":" + std::to_string(ub) + "}";
  emit(c, s);
  if (out && ok && !ub) *out = tr;
  return ok && !ub;
}

// next/prev_transition on time_point<milliseconds>: at + 0.5 s (prev) and at - 0.5 s (next)
static void ev_trans_sub(Ctx& c, int64_t at) {
  if (at > 9000000000000000LL || at < -9000000000000000LL) return;
  typedef time_point<std::chrono::milliseconds> TPM;
  for (int next = 0; next <= 1; ++next) {
    int ub;
    bool ok = false;
    time_zone::civil_transition tr;
    TPM q(std::chrono::milliseconds(at * 1000 + (next ? -500 : 500)));
    VT_GUARD(ub, ok = next ? c.tz.next_transition(q, &tr) : c.tz.prev_transition(q, &tr));
    // equivalent whole-second query: prev: strictly before at + 0.5 s  <=>  strictly before at + 1;  next: strictly after at - 1
    std::string s = std::string("{\"e\":\"") + (next ? "Next" : "Prev") + "\",\"z\":" + std::to_string(c.z) + ",\"t\":" + W(next ? at - 1 : at + 1) +
                    ",\"ok\":" + ((ok && !ub) ? "1" : "0");
    if (ok && !ub) s += ",\"from\":" + F(tr.from) + ",\"to\":" + F(tr.to);
    else s += ",\"from\":[[1],1,1,0,0,0],\"to\":[[1],1,1,0,0,0]";
    s += ",\"ub\":" + std::to_string(ub) + ",\"sub\":1}";
    emit(c, s);
  }
}

struct Tr { int64_t at; civil_second from, to; };

// the library's own forward chain of transitions (inputs for the panels only)
static std::vector<Tr> chain(Ctx& c, size_t limit) {
  std::vector<Tr> v;
  TP t = TP::min();
  time_zone::civil_transition tr;
  while (v.size() < limit && c.tz.next_transition(t, &tr)) {
    time_zone::civil_lookup cl = c.tz.lookup(tr.to);
    TP at = cl.trans;
    if (at <= t && !v.empty()) break;  // no progress: stop (the trace checks will tell)
    v.push_back(Tr{ut(at), tr.from, tr.to});
    t = at;
  }
  return v;
}

static void civil_around(std::vector<civil_second>* out, const Tr& tr) {
  const civil_second lo = tr.from < tr.to ? tr.from : tr.to;
  const civil_second hi = tr.from < tr.to ? tr.to : tr.from;
  for (int d = -2; d <= 1; ++d) out->push_back(lo + d);
  for (int d = -1; d <= 2; ++d) out->push_back(hi + d);
  int64_t w = hi - lo;
  if (w <= 120) {
    for (int64_t d = 2; d < w - 1; ++d) out->push_back(lo + d);
  } else {
    out->push_back(lo + w / 2);
    out->push_back(lo + w / 3);
  }
}

static void run_zone(Ctx& c, vt::Rng& r, bool thorough, const std::vector<int64_t>& spec_panel, bool full_chains) {
  std::vector<Tr> ch = chain(c, 2000);
  // sample of the chain
  std::vector<size_t> pick;
  size_t want = fam_small ? 10 : thorough ? 64 : 48;
  if (ch.size() <= want) {
    for (size_t i = 0; i < ch.size(); ++i) pick.push_back(i);
  } else {
    std::set<size_t> s;
    for (size_t i = 0; i < 6; ++i) { s.insert(i); s.insert(ch.size() - 1 - i); }
    // the seam between recorded and generated transitions is somewhere in the middle: spread evenly
    for (size_t i = 0; i < want / 2; ++i) s.insert(i * ch.size() / (want / 2));
    while (s.size() < want) s.insert((size_t)r.below(ch.size()));
    pick.assign(s.begin(), s.end());
  }
  std::vector<int64_t> inst;
  std::vector<civil_second> civ;
  for (size_t i : pick) {
    for (int d = -2; d <= 2; ++d) inst.push_back(sat_add(ch[i].at, d));
    inst.push_back(sat_add(ch[i].at, -86400));
    inst.push_back(sat_add(ch[i].at, 86400 * 45));
    civil_around(&civ, ch[i]);
  }
  // 400-year shifts of the last transitions (years reached through the cycle shift)
  {
    const int64_t ks[] = {1, 2, 3, 1000, 1000000, 700000000};
    size_t n = ch.size();
    for (size_t j = 0; j < 4 && j < n; ++j) {
      const Tr& t = ch[n - 1 - j];
      for (int64_t k : ks) {
        vt::i128 s = (vt::i128)t.at + (vt::i128)k * k400;
        if (s > kMax - 2) continue;
        for (int d = -1; d <= 1; ++d) inst.push_back((int64_t)s + d);
        vt::i128 y = (vt::i128)t.to.year() + 400 * (vt::i128)k;
        if (y < kMax) {
          Tr sh = t;
          sh.from = civil_second((int64_t)(t.from.year() + 400 * k), t.from.month(), t.from.day(), t.from.hour(), t.from.minute(), t.from.second());
          sh.to = civil_second((int64_t)y, t.to.month(), t.to.day(), t.to.hour(), t.to.minute(), t.to.second());
          civil_around(&civ, sh);
        }
      }
      // the largest shift that still fits
      int64_t kmax = (int64_t)(((vt::i128)kMax - t.at) / k400);
      for (int64_t k = kmax; k > kmax - 2 && k > 0; --k)
        for (int d = -1; d <= 1; ++d) {
          vt::i128 s = (vt::i128)t.at + (vt::i128)k * k400 + d;
          if (s <= kMax && s >= kMin) inst.push_back((int64_t)s);
        }
    }
  }
  // instants at which the *specification* places rule-generated changes (spec -> impl panel)
  std::vector<int64_t> spec_tr;
  {
    size_t cap = thorough ? 240 : 90, step = spec_panel.size() > cap ? spec_panel.size() / cap + 1 : 1;
    for (size_t i = (size_t)r.below(step); i < spec_panel.size(); i += step) spec_tr.push_back(spec_panel[i]);
  }
  for (int64_t t : spec_tr) {
    for (int d = -2; d <= 2; ++d) inst.push_back(sat_add(t, d));
    if (t > kMin + 10 && t < kMax - 1) {
      Tr x{t, sconv(c, t - 1) + 1, sconv(c, t)};
      civil_around(&civ, x);
      if (x.from == x.to) {  // the library sees no change here: probe the day around it as well
        for (int h = -26; h <= 26; h += 2) civ.push_back(x.to + h * 1800);
      }
    }
  }
  // fixed boundary values
  std::vector<int64_t> lim;
  for (int d = 0; d <= 2; ++d) { lim.push_back(kMin + d); lim.push_back(kMax - d); }
  const int64_t p59 = int64_t(1) << 59, p31 = int64_t(1) << 31;
  for (int d = -1; d <= 1; ++d) {
    lim.push_back(p59 + d); lim.push_back(-p59 + d); lim.push_back(p31 + d); lim.push_back(-p31 + d);
    lim.push_back(d); lim.push_back(2147483647LL + d);
  }
  for (int h = 0; h < (fam_small ? 4 : 48); ++h) { lim.push_back(kMin + 3600LL * h * 12 + 17); lim.push_back(kMax - 3600LL * h * 12 - 17); }
  for (int64_t k = kMax / k400 - 1; k <= kMax / k400; ++k)
    for (int d = -1; d <= 1; ++d) { lim.push_back(k * k400 + d); lim.push_back(-k * k400 + d); }
  for (int i = 0; i < (fam_small ? 6 : 40); ++i) lim.push_back((int64_t)r.next());
  for (int i = 0; i < (fam_small ? 6 : 40); ++i) lim.push_back(r.range(-(int64_t(1) << 35), int64_t(1) << 35));
  std::vector<civil_second> climit;
  for (int d = 0; d <= 2; ++d) { climit.push_back(civil_second::min() + d); climit.push_back(civil_second::max() - d); }
  // civil seconds just beyond what max() / min() display: a gap or an overlap may straddle the end of the range
  {
    const int ds[] = {1, 2, 59, 60, 600, 1799, 1800, 1801, 3599, 3600, 3601, 5400, 7199, 7200, 7201, 14400, 86399, 86400, 90000};
    civil_second cmax = sconv(c, kMax), cmin = sconv(c, kMin);
    for (int d : ds) { climit.push_back(cmax + d); climit.push_back(cmin - d); climit.push_back(cmax - d); climit.push_back(cmin + d); }
  }
  // civil years far beyond the reachable range whose distance from the 21st-23rd century is a whole multiple of the
  // largest cycle count that fits int64 seconds (the saturating shift is applied in steps of that size)
  for (int64_t m : {2, 3, 5, 31}) {
    const int64_t big = 730692561LL * 400 * m;
    for (int64_t cy : {1971, 2040, 2100, 2150, 2196, 2197, 2300, 2438, 2439})
      climit.push_back(civil_second(cy + big, 1 + (int)(cy % 12), 15, 12, 0, 0));
  }
  // year and leap-day boundaries in a spread of years of every kind (negative, century, 400-multiples and their
  // neighbours): far from any transition, chosen by the calendar cycle alone
  for (int64_t y : {-1199, -800, -799, -401, -400, -399, -398, -101, -100, -99, -4, -1, 0, 1, 4, 100, 399, 400, 401, 1600, 1900, 2000, 2100, 2400}) {
    climit.push_back(civil_second(y, 1, 1, 0, 0, 0) - 1); climit.push_back(civil_second(y, 1, 1, 0, 0, 0));
    climit.push_back(civil_second(y, 3, 1, 0, 0, 0) - 1); climit.push_back(civil_second(y, 3, 1, 0, 0, 0));
    climit.push_back(civil_second(y, 2, 28, 12, 0, 0));
  }
  for (int i = 0; i < 12; ++i) {
    int64_t y = (i & 1) ? kMax - (int64_t)r.below(3) : kMin + (int64_t)r.below(3);
    climit.push_back(civil_second(y, (int)r.range(1, 12), (int)r.range(1, 28), (int)r.range(0, 23), (int)r.range(0, 59), (int)r.range(0, 59)));
    climit.push_back(civil_second((int64_t)r.next(), (int)r.range(1, 12), (int)r.range(1, 28), 12, 0, 0));
    // civil years just outside what time_point<seconds> can reach
    int64_t yy = (i & 1) ? 292277026596LL + (int64_t)r.range(-2, 2) : -292277022657LL + (int64_t)r.range(-2, 2);
    climit.push_back(civil_second(yy, (int)r.range(1, 12), (int)r.range(1, 28), (int)r.range(0, 23), 30, 30));
  }

  if (fam_break) for (int64_t t : inst) ev_break(c, t);
  if (fam_limits) {
    for (int64_t t : lim) { ev_break(c, t); ev_rt(c, t); ev_trans(c, true, t); ev_trans(c, false, t); }
    for (const civil_second& cs : climit) { ev_make(c, cs); ev_convert(c, cs); }
    // the civil seconds shown at the limits convert back exactly
    for (int d = 0; d <= 2; ++d) {
      ev_rt2(c, sconv(c, kMax - d));
      ev_rt2(c, sconv(c, kMin + d));
      ev_make(c, sconv(c, kMax - d) + 1 + d);
      ev_make(c, sconv(c, kMin + d) - 1 - d);
    }
  }
  if (fam_make) {
    for (const civil_second& cs : civ) ev_make(c, cs);
    for (size_t i = 0; i < inst.size(); i += 3) ev_make(c, sconv(c, inst[i]));
    for (const civil_second& cs : climit) ev_make(c, cs);
  }
  if (fam_rt) {
    for (int64_t t : inst)
      if (t > kMin + 86400 && t < kMax - 86400) ev_rt(c, t);
    for (const civil_second& cs : civ) ev_rt2(c, cs);
  }
  if (fam_convert) {
    std::vector<civil_second> all = civ;
    for (int64_t t : inst) all.push_back(sconv(c, t));
    for (const civil_second& cs : climit) all.push_back(cs);
    for (int64_t t : lim) all.push_back(sconv(c, t));
    std::sort(all.begin(), all.end());
    all.erase(std::unique(all.begin(), all.end()), all.end());
    for (const civil_second& cs : all) ev_convert(c, cs);
  }
  if (fam_trans) {
    for (size_t i : pick)
      for (int d = -1; d <= 1; ++d) { ev_trans(c, true, sat_add(ch[i].at, d)); ev_trans(c, false, sat_add(ch[i].at, d)); }
    for (int64_t t : spec_tr)
      for (int d = -1; d <= 1; ++d) { ev_trans(c, true, sat_add(t, d)); ev_trans(c, false, sat_add(t, d)); }
    ev_trans(c, true, kMin); ev_trans(c, true, kMax); ev_trans(c, false, kMin); ev_trans(c, false, kMax);
    // the same queries through the public templates for finer time points: an instant half a second after a change
    // has that change strictly before it, one half a second before it has the change strictly after it (before and
    // after the epoch alike).  Logged as the equivalent whole-second query, marked "sub".
    for (size_t i : pick) ev_trans_sub(c, ch[i].at);
    for (int i = 0; i < (fam_small ? 2 : 10); ++i) { int64_t t = (int64_t)r.next(); ev_trans(c, true, t); ev_trans(c, false, t); }
    // full chains, following the library's own answers: forward from min(), backward from max()
    if (full_chains && !fam_small) {
    emit(c, "{\"e\":\"ChainStart\",\"z\":" + std::to_string(c.z) + ",\"dir\":\"fwd\"}");
    {
      TP t = TP::min();
      time_zone::civil_transition tr;
      size_t n = 0;
      while (n++ < 3000 && ev_trans(c, true, ut(t), &tr)) {
        // the instant of the reported change: `to` read with the offset in force AFTER the change (a change that alters the
        // designation alone inside an overlap shows a repeated civil second: it is `post`, not `trans`)
        auto cl = c.tz.lookup(tr.to);
        TP at = TP::max();
        bool found = false;
        for (TP x : {cl.trans, cl.post}) if (x > t && (!found || x < at)) { at = x; found = true; }
        if (!found && n > 1) break;
        if (!found) at = cl.trans;
        t = at;
      }
    }
    emit(c, "{\"e\":\"ChainStart\",\"z\":" + std::to_string(c.z) + ",\"dir\":\"bwd\"}");
    {
      TP t = TP::max();
      time_zone::civil_transition tr;
      size_t n = 0;
      while (n++ < 3000 && ev_trans(c, false, ut(t), &tr)) {
        auto cl = c.tz.lookup(tr.to);
        TP at = TP::min();
        bool found = false;
        for (TP x : {cl.trans, cl.post}) if (x < t && (!found || x > at)) { at = x; found = true; }
        if (!found && n > 1) break;
        if (!found) at = cl.trans;
        t = at;
      }
    }
    emit(c, "{\"e\":\"ChainEnd\",\"z\":" + std::to_string(c.z) + "}");
    }
  }
  if (fam_history && !ch.empty()) {
    // C14: put the hidden hint in every bracket (one query landing there), then a fixed probe panel
    size_t nb = std::min<size_t>(ch.size(), thorough ? 48 : 24);
    std::vector<int64_t> probes;
    probes.push_back(sat_add(ch.front().at, -5)); probes.push_back(sat_add(ch.front().at, 5));
    probes.push_back(sat_add(ch.back().at, -5)); probes.push_back(sat_add(ch.back().at, 5));
    probes.push_back(0); probes.push_back(sat_add(sat_add(ch.back().at, 3 * k400), 12345));
    for (size_t j = 0; j < nb; ++j) {
      size_t i = (nb == ch.size()) ? j : (size_t)r.below(ch.size());
      int64_t inside = (i + 1 < ch.size()) ? (int64_t)(((vt::i128)ch[i].at + ch[i + 1].at) / 2) : sat_add(ch[i].at, 1000);
      std::vector<int64_t> p = probes;
      p.push_back(sat_add(inside, 1));
      if (i > 0) p.push_back(sat_add(ch[i - 1].at, 1));
      if (i + 1 < ch.size()) { p.push_back(ch[i + 1].at); p.push_back(sat_add(ch[i + 1].at, -1)); }
      p.push_back(ch[i].at); p.push_back(sat_add(ch[i].at, -1));
      // instant direction
      ev_break(c, inside);
      for (int64_t t : p) ev_break(c, t);
      // civil direction
      ev_make(c, sconv(c, inside));
      for (int64_t t : p) ev_make(c, sconv(c, t));
      std::vector<civil_second> around;
      civil_around(&around, ch[i]);
      if (i + 1 < ch.size()) civil_around(&around, ch[i + 1]);
      ev_make(c, sconv(c, inside));
      for (const civil_second& cs : around) ev_make(c, cs);
    }
    // long random call sequences
    size_t n = thorough ? 600 : 300;
    for (size_t k = 0; k < n; ++k) {
      const Tr& t = ch[(size_t)r.below(ch.size())];
      int64_t x = sat_add(t.at, r.range(-3, 3) * (r.below(3) ? 1 : 86400));
      switch (r.below(4)) {
        case 0: ev_break(c, x); break;
        case 1: ev_make(c, sconv(c, x)); break;
        case 2: ev_make(c, (r.below(2) ? t.from : t.to) + r.range(-2, 2)); break;
        default: ev_trans(c, r.below(2) != 0, x); break;
      }
    }
  }
}

// zones with few transitions always get full chains
static bool ch_small(Ctx& c) { return chain(c, 130).size() < 120; }

static void alarm_handler(int sig) {
  fflush(nullptr);
  const char msg[] = "FATAL: TIMEOUT while handling zone ";
  (void)!write(2, msg, sizeof msg - 1);
  (void)!write(2, (const char*)g_current_zone, strlen((const char*)g_current_zone));
  (void)!write(2, "\n", 1);
  _exit(72);
}
static void crash_handler(int sig) {
  fflush(nullptr);
  const char msg[] = "FATAL: crash signal in driver (assert/ASan)\n";
  (void)!write(2, msg, sizeof msg - 1);
  _exit(71);
}

int main(int argc, char** argv) {
  if (argc < 7) { fprintf(stderr, "usage: see header\n"); return 2; }
  vt::install_trap_handler();
  signal(SIGABRT, crash_handler);
  signal(SIGSEGV, crash_handler);
  signal(SIGBUS, crash_handler);
  std::string list = argv[1], prefix = argv[2];
  int nsh = atoi(argv[3]);
  uint64_t seed = strtoull(argv[4], nullptr, 10);
  bool thorough = strcmp(argv[5], "thorough") == 0;
  std::string fam = argv[6];
  auto has = [&](const char* w) { std::string f = "," + fam + ","; return f.find(std::string(",") + w + ",") != std::string::npos; };
  fam_break = has("break");
  fam_make = has("make");
  fam_rt = has("rt");
  fam_convert = has("convert");
  fam_limits = has("limits");
  fam_trans = has("trans");
  fam_history = has("history");
  fam_twin = has("twin");
  fam_small = has("small");   // reduced panels (many zones, e.g. mutated files)
  signal(SIGALRM, alarm_handler);
  // optional spec-generated panel: lines {"name":..., "t":[W...]} are not parsed here; a plain
  // text form "<name>\t<int64> <int64> ..." is used instead
  std::map<std::string, std::vector<int64_t>> panel;
  if (argc > 7) {
    std::ifstream pf(argv[7]);
    std::string line;
    while (std::getline(pf, line)) {
      size_t tab = line.find('\t');
      if (tab == std::string::npos) continue;
      std::istringstream is(line.substr(tab + 1));
      int64_t v;
      std::vector<int64_t>& dst = panel[line.substr(0, tab)];
      while (is >> v) dst.push_back(v);
    }
  }
  std::vector<FILE*> files;
  std::vector<int> zcount(nsh, 0);
  std::vector<uint64_t> shard_events(nsh, 0);
  for (int i = 0; i < nsh; ++i) {
    std::string p = prefix + "." + std::to_string(i) + ".ndjson";
    FILE* f = fopen(p.c_str(), "w");
    if (!f) { perror(p.c_str()); return 2; }
    files.push_back(f);
  }
  std::ifstream in(list);
  std::string line;
  uint64_t total = 0;
  int idx = 0, loaded = 0;
  while (std::getline(in, line)) {
    size_t tab = line.find('\t');
    if (tab == std::string::npos) continue;
    std::string name = line.substr(0, tab), path = line.substr(tab + 1);
    std::ifstream zf(path, std::ios::binary);
    std::string bytes((std::istreambuf_iterator<char>(zf)), std::istreambuf_iterator<char>());
    // the shard with the fewest events so far (zones differ a lot in size)
    int sh = 0;
    for (int i = 1; i < nsh; ++i) if (shard_events[i] < shard_events[sh]) sh = i;
    ++idx;
    if (g_nest_small.empty()) g_nest_small = minimal_image();
    std::string key = "V/" + std::to_string(idx) + "/" + name;
    { std::lock_guard<std::mutex> l(g_mu); g_files[key] = bytes; }
    Ctx c{files[sh], ++zcount[sh], time_zone(), 0};
    int ub;
    bool ok = false;
    g_current_zone = name.c_str();
    alarm(thorough ? 120 : 40);
    VT_GUARD(ub, ok = load_time_zone(key, &c.tz));
    emit(c, "{\"e\":\"Load\",\"z\":" + std::to_string(c.z) + ",\"name\":" + vt::jstr(name) + ",\"bytes\":" +
                bytes_json(bytes) + ",\"desc\":" + bytes_json(ok && !ub ? c.tz.description() : std::string()) + ",\"ok\":" + (ok && !ub ? "1" : "0") + ",\"isutc\":" +
                (c.tz == utc_time_zone() ? "1" : "0") + ",\"ub\":" + std::to_string(ub) + ",\"relaxed\":" + (name.compare(0, 10, "gen/desig-") == 0 ? "1" : "0") + "}");
    if (fam_twin) {
      // the outcome is a function of the bytes alone: a second load of the same bytes under another
      // name must agree in verdict, description and answers
      std::string key2 = key + "#twin";
      { std::lock_guard<std::mutex> l(g_mu); g_files[key2] = bytes; }
      time_zone tz2;
      int ub2;
      bool ok2 = false, same = true;
      VT_GUARD(ub2, ok2 = load_time_zone(key2, &tz2));
      if (ok2 != ok || ub2 != ub) same = false;
      if (same && ok && !ub) {
        VT_GUARD(ub2, {
          if (tz2.description() != c.tz.description()) same = false;
          vt::Rng r2(seed + 77);
          for (int i = 0; i < 24 && same; ++i) {
            int64_t t = (i % 3 == 0) ? (int64_t)r2.next() : r2.range(-4000000000LL, 8000000000LL);
            auto a = c.tz.lookup(tp(t)), b2 = tz2.lookup(tp(t));
            if (a.cs != b2.cs || a.offset != b2.offset || a.is_dst != b2.is_dst || strcmp(a.abbr, b2.abbr) != 0) same = false;
            auto m1 = c.tz.lookup(a.cs), m2 = tz2.lookup(a.cs);
            if (m1.kind != m2.kind || m1.pre != m2.pre || m1.trans != m2.trans || m1.post != m2.post) same = false;
          }
        });
        if (ub2) same = false;
      }
      if (same && ok && !ub) {
        // ... and of the bytes alone means: not of the calls made before.  The civil seconds around the zone's own
        // transitions are looked up in order, then again in reverse order with unrelated lookups in between
        // (also on zones whose data the specification does not classify, where no oracle applies).
        VT_GUARD(ub2, {
          std::vector<Tr> ch = chain(c, 48);
          std::vector<civil_second> qs;
          std::vector<int64_t> qt;
          for (const Tr& x : ch) {
            for (int d : {-1, 0, 1}) { qs.push_back(x.from + d); qs.push_back(x.to + d); qt.push_back(sat_add(x.at, d)); }
            qs.push_back(x.from + (x.to - x.from) / 2);
            qs.push_back(x.to + 3600); qs.push_back(x.from - 3600); qs.push_back(x.to + 86400 * 20);
          }
          std::vector<time_zone::civil_lookup> a1;
          std::vector<civil_second> b1;
          for (const civil_second& q : qs) a1.push_back(c.tz.lookup(q));
          for (int64_t t : qt) b1.push_back(c.tz.lookup(tp(t)).cs);
          for (size_t i = qs.size(); i-- > 0 && same;) {
            (void)c.tz.lookup(civil_second(1950 + (int)(i % 90), 1 + (int)(i % 12), 1, 0, 0, 0));
            (void)c.tz.lookup(tp((int64_t)(i % 97) * 40000000LL - 1500000000LL));
            auto m = c.tz.lookup(qs[i]);
            if (m.kind != a1[i].kind || m.pre != a1[i].pre || m.trans != a1[i].trans || m.post != a1[i].post) same = false;
          }
          for (size_t i = qt.size(); i-- > 0 && same;) {
            (void)c.tz.lookup(tp((int64_t)(i % 89) * 50000000LL - 2000000000LL));
            if (c.tz.lookup(tp(qt[i])).cs != b1[i]) same = false;
          }
        });
        if (ub2) same = false;
      }
      emit(c, "{\"e\":\"Twin\",\"z\":" + std::to_string(c.z) + ",\"same\":" + (same ? "1" : "0") + "}");
      { std::lock_guard<std::mutex> l(g_mu); g_files.erase(key2); }
    }
    if (ok && !ub) {
      ++loaded;
      vt::Rng r(seed * 1000003 + (uint64_t)idx);
      // library calls made while building the panels are guarded as a whole: an undefined operation
      // there is reported for this zone (and the rest of its panel is skipped)
      int pub = 0;
      VT_GUARD(pub, run_zone(c, r, thorough, panel[name], thorough || ch_small(c) || (uint64_t)idx % 4 == seed % 4));
      if (pub || g_panel_ub) emit(c, "{\"e\":\"PanelUB\",\"z\":" + std::to_string(c.z) + ",\"ub\":1}");
      g_panel_ub = false;
    }
    alarm(0);
    total += c.events;
    shard_events[sh] += c.events + 50;
    { std::lock_guard<std::mutex> l(g_mu); g_files.erase(key); if (bytes.size() < 8192) g_nest_prev = bytes; }
  }
  // the library's built-in fixed-offset zones (no zone data): +-24 h, sub-minute, UTC
  if (has("fixed")) {
    for (long off : {86400L, -86400L, 86399L, -86399L, 0L, 19815L, -30L, 43200L, 90000L}) {
      int sh = 0;
      for (int i = 1; i < nsh; ++i) if (shard_events[i] < shard_events[sh]) sh = i;
      ++idx;
      // offset 0 is asked of a default-constructed time_zone value (documented to behave as UTC)
      Ctx c{files[sh], ++zcount[sh], off == 0 ? time_zone() : fixed_time_zone(seconds(off)), 0};
      emit(c, "{\"e\":\"LoadFixed\",\"z\":" + std::to_string(c.z) + ",\"name\":\"fixed\",\"off\":" + std::to_string(off) + ",\"ok\":1}");
      vt::Rng r(seed * 1000003 + (uint64_t)idx);
      int pub = 0;
      VT_GUARD(pub, run_zone(c, r, thorough, std::vector<int64_t>(), true));
      if (pub || g_panel_ub) emit(c, "{\"e\":\"PanelUB\",\"z\":" + std::to_string(c.z) + ",\"ub\":1}");
      g_panel_ub = false;
      total += c.events;
      shard_events[sh] += c.events + 50;
    }
  }
  // "libc:UTC" (the C-library-backed zone without a local zone): its civil -> absolute direction is the fixed zone of
  // offset 0 over the whole range (its absolute -> civil direction is limited by struct tm and is not asked here)
  if (has("fixed") && (fam_make || fam_convert || fam_limits)) {
    time_zone lz;
    if (load_time_zone("libc:UTC", &lz)) {
      ++idx;
      Ctx c{files[0], ++zcount[0], lz, 0};
      Ctx u{files[0], 0, utc_time_zone(), 0};
      emit(c, "{\"e\":\"LoadFixed\",\"z\":" + std::to_string(c.z) + ",\"name\":\"fixed\",\"off\":0,\"ok\":1}");
      std::vector<civil_second> cs;
      for (int d = 0; d <= 2; ++d) {
        cs.push_back(sconv(u, kMax - d)); cs.push_back(sconv(u, kMin + d));
        cs.push_back(sconv(u, kMax - d) + 1 + d); cs.push_back(sconv(u, kMin + d) - 1 - d);
      }
      for (int64_t y : {(int64_t)2147483647 + 1900, (int64_t)2147483647 + 1901, (int64_t)-2147483647 - 1 + 1900, (int64_t)-2147483647 + 1898,
                        (int64_t)3000000000LL, (int64_t)-3000000000LL, (int64_t)292277026596LL, (int64_t)-292277022657LL, (int64_t)292277026597LL,
                        (int64_t)1970, (int64_t)2038, (int64_t)0, (int64_t)-1, (int64_t)100000000000LL})
        for (int m : {1, 12}) cs.push_back(civil_second(y, m, m == 1 ? 1 : 31, m == 1 ? 0 : 23, 59, 59));
      cs.push_back(civil_second::max()); cs.push_back(civil_second::min());
      for (const civil_second& x : cs) { ev_make(c, x); ev_convert(c, x); }
      total += c.events;
    }
  }
  for (FILE* f : files) fclose(f);
  fprintf(stderr, "drv_zone: %d zones (%d loaded), %llu events, %ld nested loads from inside sources\n", idx, loaded, (unsigned long long)total, g_nested_loads.load());
  return 0;
}
