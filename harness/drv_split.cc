// Driver for C18: a panel of time_point duration types through split_seconds, lookup, convert,
// format and parse/join_seconds, at every remainder class on both sides of the epoch and at each
// representation's limits.  Logs arguments and results only; spec/SplitTrace.tla decides.
// usage: drv_split <out-prefix> <shards> <seed> <tier>
#include <chrono>
#include <limits>
#include <ratio>

#include "cctz/time_zone.h"
#include "trace.h"

using namespace cctz;
using vt::W;
static vt::Shards* out;
static time_zone g_utc = utc_time_zone();

static std::string bj(const std::string& b) {
  std::string s = "[";
  char buf[8];
  for (size_t i = 0; i < b.size(); ++i) { snprintf(buf, sizeof buf, i ? ",%d" : "%d", (unsigned char)b[i]); s += buf; }
  return s + "]";
}
template <typename Rep> struct Bits { enum { v = sizeof(Rep) * 8 }; };

template <typename Rep, typename Ratio>
static void one(vt::i128 c128) {
  typedef std::chrono::duration<Rep, Ratio> D;
  typedef time_point<D> TPD;
  if (c128 > std::numeric_limits<Rep>::max() || c128 < std::numeric_limits<Rep>::min()) return;
  // the whole-second count must fit time_point<seconds>
  vt::i128 secs = c128 * Ratio::num / Ratio::den;
  if (secs > (vt::i128)std::numeric_limits<int64_t>::max() - 2 || secs < (vt::i128)std::numeric_limits<int64_t>::min() + 2) return;
  const Rep c = (Rep)c128;
  const TPD tp = TPD() + D(c);
  std::string hdr = ",\"num\":" + std::to_string((long long)Ratio::num) + ",\"den\":" + W((vt::i128)Ratio::den) +
                    ",\"bits\":" + std::to_string((int)Bits<Rep>::v) + ",\"c\":" + W(c128);
  int ub;
  {
    time_point<seconds> s; vt::i128 sub = 0;
    VT_GUARD(ub, { auto p = detail::split_seconds(tp); s = p.first; sub = (vt::i128)p.second.count(); });
    out->emit("{\"e\":\"Split\"" + hdr + ",\"sec\":" + W(ub ? 0 : (vt::i128)s.time_since_epoch().count()) + ",\"sub\":" + W(sub) +
              ",\"ub\":" + std::to_string(ub) + "}");
  }
  {
    civil_second cs;
    VT_GUARD(ub, cs = convert(tp, g_utc));
    civil_second cs2;
    int ub2;
    VT_GUARD(ub2, cs2 = g_utc.lookup(tp).cs);
    out->emit("{\"e\":\"LookupD\"" + hdr + ",\"cs\":" + (ub ? std::string("[[1],1,1,0,0,0]") : vt::F(cs)) + ",\"cs2\":" +
              (ub2 ? std::string("[[1],1,1,0,0,0]") : vt::F(cs2)) + ",\"ub\":" + std::to_string(ub | ub2) + "}");
  }
  std::string text;
  {
    std::string o;
    VT_GUARD(ub, o = format("%s|%E15f|%E3f|%E*f|%E0f|%S|%E2S|%E16f|%E18S|%E1f %E*S %E6f", tp, g_utc));
    out->emit("{\"e\":\"FormatD\"" + hdr + ",\"out\":" + bj(o) + ",\"ub\":" + std::to_string(ub) + "}");
    VT_GUARD(ub, text = format("%Y-%m-%dT%H:%M:%E*S%Ez", tp, g_utc));
  }
  {  // parse what format rendered, back into the same representation
    TPD back;
    bool ok = false;
    VT_GUARD(ub, ok = parse("%Y-%m-%dT%H:%M:%E*S%Ez", text, g_utc, &back));
    out->emit("{\"e\":\"ParseBack\"" + hdr + ",\"ok\":" + (ok && !ub ? "1" : "0") + ",\"back\":" +
              W(ok && !ub ? (vt::i128)back.time_since_epoch().count() : 0) + ",\"ub\":" + std::to_string(ub) + "}");
  }
}
// parse / join of an instant given as (seconds, femtoseconds) into the representation
template <typename Rep, typename Ratio>
static void join(int64_t sec, int64_t fs) {
  typedef std::chrono::duration<Rep, Ratio> D;
  typedef time_point<D> TPD;
  // sub-second targets only inside their own range (the header's TODO is outside the property)
  if (Ratio::den != 1) {
    vt::i128 cnt = (vt::i128)sec * Ratio::den;
    if (cnt > (vt::i128)std::numeric_limits<Rep>::max() - 2 * (vt::i128)Ratio::den || cnt < (vt::i128)std::numeric_limits<Rep>::min() + 2 * (vt::i128)Ratio::den) return;
  }
  std::string hdr = ",\"num\":" + std::to_string((long long)Ratio::num) + ",\"den\":" + W((vt::i128)Ratio::den) +
                    ",\"bits\":" + std::to_string((int)Bits<Rep>::v) + ",\"sec\":" + W(sec) + ",\"fs\":" + W(fs);
  int ub;
  TPD r;
  bool ok = false;
  VT_GUARD(ub, ok = detail::join_seconds(time_point<seconds>(seconds(sec)), detail::femtoseconds(fs), &r));
  out->emit("{\"e\":\"Join\"" + hdr + ",\"ok\":" + (ok && !ub ? "1" : "0") + ",\"c\":" + W(ok && !ub ? (vt::i128)r.time_since_epoch().count() : 0) +
            ",\"ub\":" + std::to_string(ub) + "}");
  // the same through the public parse(): the text is rendered from (sec, fs) by detail::format
  std::string text = detail::format("%Y-%m-%dT%H:%M:%E*S%Ez", time_point<seconds>(seconds(sec)), detail::femtoseconds(fs), g_utc);
  TPD r2;
  bool ok2 = false;
  VT_GUARD(ub, ok2 = parse("%Y-%m-%dT%H:%M:%E*S%Ez", text, g_utc, &r2));
  out->emit("{\"e\":\"ParseD\"" + hdr + ",\"ok\":" + (ok2 && !ub ? "1" : "0") + ",\"c\":" + W(ok2 && !ub ? (vt::i128)r2.time_since_epoch().count() : 0) +
            ",\"ub\":" + std::to_string(ub) + "}");
  // the text carries its own offset, so the zone handed to parse() is irrelevant - also at the limits of the range
  static const time_zone kOther[2] = {fixed_time_zone(seconds(14 * 3600)), fixed_time_zone(seconds(-12 * 3600))};
  for (const time_zone& oz : kOther) {
    TPD r3;
    bool ok3 = false;
    VT_GUARD(ub, ok3 = parse("%Y-%m-%dT%H:%M:%E*S%Ez", text, oz, &r3));
    out->emit("{\"e\":\"ParseD\"" + hdr + ",\"ok\":" + (ok3 && !ub ? "1" : "0") + ",\"c\":" + W(ok3 && !ub ? (vt::i128)r3.time_since_epoch().count() : 0) +
              ",\"ub\":" + std::to_string(ub) + ",\"otherzone\":1}");
  }
}

template <typename Rep, typename Ratio>
static void panel(vt::Rng& r, int reps) {
  const vt::i128 den = Ratio::den, mx = std::numeric_limits<Rep>::max(), mn = std::numeric_limits<Rep>::min();
  std::vector<vt::i128> cs = {0, 1, -1, 2, -2, mx, mx - 1, mn, mn + 1, mx / 2, mn / 2};
  for (vt::i128 k : {(vt::i128)0, (vt::i128)1, (vt::i128)-1, (vt::i128)2, (vt::i128)-2, (vt::i128)1000, (vt::i128)-1000, (vt::i128)86400, (vt::i128)-86400})
    for (vt::i128 rem : {(vt::i128)0, (vt::i128)1, den / 2, den - 1, den / 3, den - den / 3})
      if (rem < den) { cs.push_back(k * den + rem); cs.push_back(k * den - rem); }
  for (int i = 0; i < reps; ++i) {
    cs.push_back((vt::i128)(int64_t)r.next() % (mx + 1));
    cs.push_back(-((vt::i128)(int64_t)(r.next() >> 1) % (mx + 1)));
    cs.push_back(r.range(-5, 5) * den + r.range(-3, 3));
    cs.push_back((vt::i128)r.range(-100000, 100000) * den + (vt::i128)(r.next() % (uint64_t)(den > 0 ? den : 1)));
  }
  for (vt::i128 c : cs) one<Rep, Ratio>(c);
  // joins: instants around the epoch in every remainder class, and around the representation's limits
  const vt::i128 num = Ratio::num;
  std::vector<int64_t> secs = {0, 1, -1, 59, -59, 60, -60, 61, -61, 3599, -3599, 3600, -3600, 3601, -3601, 86399, -86399};
  for (vt::i128 edge : {mx, mn}) {
    vt::i128 s = edge * num / den;
    for (int d = -2; d <= 2; ++d)
      for (vt::i128 m : {(vt::i128)1, num}) {
        vt::i128 v = s + d * m;
        if (v < std::numeric_limits<int64_t>::max() && v > std::numeric_limits<int64_t>::min()) secs.push_back((int64_t)v);
      }
    for (int d = -3; d <= 3; ++d) { vt::i128 v = s + d; if (v < std::numeric_limits<int64_t>::max() && v > std::numeric_limits<int64_t>::min()) secs.push_back((int64_t)v); }
  }
  for (int i = 0; i < reps; ++i) { secs.push_back(r.range(-100000, 100000)); secs.push_back((int64_t)r.next() / 4); }
  const int64_t fss[] = {0, 1, 999999999999999LL, 500000000000000LL, 333333333333333LL, 100000000000000LL, 999999999LL, 1000000LL};
  for (int64_t s : secs)
    for (int64_t f : fss) join<Rep, Ratio>(s, f);
}

// tick periods that are a proper fraction with a numerator other than 1 (NTSC frames, 3/2 s, 2/3 s ...): only the WHOLE second
// is asked (lookup, convert, %s, %S) - what such types do with the remainder is outside the property
template <typename Rep, typename Ratio>
static void rational(vt::Rng& r, int reps) {
  typedef std::chrono::duration<Rep, Ratio> D;
  typedef time_point<D> TPD;
  const vt::i128 num = Ratio::num, den = Ratio::den;
  std::vector<vt::i128> cs;
  for (int k = -70; k <= 70; ++k) cs.push_back(k);
  for (vt::i128 k : {(vt::i128)1, (vt::i128)2, (vt::i128)7, (vt::i128)1000, (vt::i128)86400, (vt::i128)14182940})
    for (int d = -3; d <= 3; ++d) { cs.push_back(k * den + d); cs.push_back(-k * den + d); cs.push_back(k * den / num + d); cs.push_back(-(k * den / num) + d); }
  for (int i = 0; i < reps; ++i) { cs.push_back(r.range(-2000000000LL, 2000000000LL)); cs.push_back(-(vt::i128)(r.next() % 1000000)); }
  for (vt::i128 c128 : cs) {
    if (c128 > std::numeric_limits<Rep>::max() || c128 < std::numeric_limits<Rep>::min()) continue;
    const TPD tp = TPD() + D((Rep)c128);
    int ub, ub2, ub3;
    civil_second a, b;
    std::string o;
    VT_GUARD(ub, a = convert(tp, g_utc));
    VT_GUARD(ub2, b = g_utc.lookup(tp).cs);
    VT_GUARD(ub3, o = format("%s|%S", tp, g_utc));
    out->emit("{\"e\":\"LookupQ\",\"num\":" + std::to_string((long long)num) + ",\"den\":" + W(den) + ",\"c\":" + W(c128) + ",\"cs\":" +
              (ub ? std::string("[[1],1,1,0,0,0]") : vt::F(a)) + ",\"cs2\":" + (ub2 ? std::string("[[1],1,1,0,0,0]") : vt::F(b)) + ",\"out\":" + bj(o) +
              ",\"ub\":" + std::to_string(ub | ub2 | ub3) + "}");
  }
}

// 64-bit counts of minutes / hours / days: every second of the int64 range has a floor in them, including the
// outermost Num seconds of both ends (where a "round towards the floor" written as subtract-then-divide wraps)
template <typename Rep, typename Ratio>
static void join_limits() {
  const int64_t num = Ratio::num, mn = std::numeric_limits<int64_t>::min(), mx = std::numeric_limits<int64_t>::max();
  std::vector<int64_t> secs = {0, 1, -1, num - 1, num, num + 1, -num + 1, -num, -num - 1, 1000000007, -1000000007};
  for (int64_t k : {(int64_t)0, (int64_t)1, (int64_t)2, num / 2, num - 2, num - 1, num, num + 1, 2 * num - 1, 2 * num, 2 * num + 1}) {
    secs.push_back(mn + k);
    secs.push_back(mx - k);
  }
  const int64_t fss[] = {0, 1, 999999999999999LL};
  for (int64_t s : secs)
    for (int64_t f : fss) join<Rep, Ratio>(s, f);
}

int main(int argc, char** argv) {
  if (argc < 5) return 2;
  vt::install_trap_handler();
  vt::Shards sh(argv[1], atoi(argv[2]));
  out = &sh;
  vt::Rng r(strtoull(argv[3], nullptr, 10));
  int reps = strcmp(argv[4], "thorough") == 0 ? 3000 : 60;
  panel<int64_t, std::nano>(r, reps);
  panel<int64_t, std::micro>(r, reps);
  panel<int64_t, std::milli>(r, reps);
  panel<int64_t, std::ratio<1>>(r, reps);
  panel<int32_t, std::ratio<60>>(r, reps);
  panel<int32_t, std::ratio<3600>>(r, reps);
  panel<int8_t, std::ratio<1>>(r, reps);
  panel<int16_t, std::ratio<1>>(r, reps);
  panel<int8_t, std::ratio<60>>(r, reps);
  panel<int16_t, std::ratio<60>>(r, reps);
  panel<int64_t, std::ratio<1, 3>>(r, reps);
  panel<int64_t, std::femto>(r, reps);
  panel<int32_t, std::milli>(r, reps);
  // tick periods whose denominator does not divide 10^15: the femtosecond value of a remainder is not a whole
  // multiple of anything convenient (binary fractions, frame rates, the 90 kHz media clock, sevenths)
  panel<int64_t, std::ratio<1, 65536>>(r, reps);
  panel<int64_t, std::ratio<1, 60>>(r, reps);
  panel<int64_t, std::ratio<1, 90000>>(r, reps);
  panel<int64_t, std::ratio<1, 7>>(r, reps);
  rational<int64_t, std::ratio<1001, 30000>>(r, reps);
  rational<int64_t, std::ratio<3, 2>>(r, reps);
  rational<int64_t, std::ratio<2, 3>>(r, reps);
  rational<int32_t, std::ratio<1001, 60000>>(r, reps);
  rational<int64_t, std::ratio<5, 7>>(r, reps);
  join_limits<int64_t, std::ratio<60>>();
  join_limits<int64_t, std::ratio<3600>>();
  join_limits<int64_t, std::ratio<86400>>();
  join_limits<int64_t, std::ratio<604800>>();
  // texts one second inside / outside the range of time_point<seconds>, written with an explicit offset and parsed with
  // zones east and west of UTC (the limits are those of the instant, whatever zone is supplied)
  {
    struct Lit { const char* text; int delta; };   // delta: seconds beyond the nearest limit (0 = the limit itself, <0 inside)
    const Lit lits[] = {{"292277026596-12-04T15:30:07+00:00", 0}, {"292277026596-12-04T15:30:08+00:00", 1}, {"292277026596-12-04T15:30:06+00:00", -1},
                        {"292277026596-12-05T05:30:07+14:00", 0}, {"292277026596-12-05T05:30:08+14:00", 1}, {"292277026596-12-04T03:30:08-12:00", 1},
                        {"-292277022657-01-27T08:29:52+00:00", 0}, {"-292277022657-01-27T08:29:51+00:00", 1}, {"-292277022657-01-27T08:29:53+00:00", -1},
                        {"-292277022657-01-26T20:29:51-12:00", 1}, {"-292277022657-01-27T22:29:52+14:00", 0}, {"292277026596-12-04T15:30:07.9+00:00", 0},
                        {"-292277022657-01-27T08:29:51.9+00:00", 1}};
    const time_zone zs[3] = {g_utc, fixed_time_zone(seconds(14 * 3600)), fixed_time_zone(seconds(-12 * 3600))};
    for (const Lit& l : lits)
      for (int zi = 0; zi < 3; ++zi) {
        time_point<seconds> tp;
        int ub;
        bool ok = false;
        VT_GUARD(ub, ok = parse("%Y-%m-%dT%H:%M:%E*S%Ez", l.text, zs[zi], &tp));
        bool hi = l.text[0] != '-';
        out->emit(std::string("{\"e\":\"ParseLimit\",\"text\":\"") + l.text + "\",\"zone\":" + std::to_string(zi) + ",\"hi\":" + (hi ? "1" : "0") +
                  ",\"delta\":" + std::to_string(l.delta) + ",\"ok\":" + (ok && !ub ? "1" : "0") + ",\"c\":" +
                  W(ok && !ub ? (vt::i128)tp.time_since_epoch().count() : 0) + ",\"ub\":" + std::to_string(ub) + "}");
      }
  }
  fprintf(stderr, "drv_split: %llu events\n", (unsigned long long)sh.count);
  sh.close();
  return 0;
}
