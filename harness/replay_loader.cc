// spec -> impl replay for the loader (C13, C20, cache half of C14).
//
// Three modes, all driven from one input file produced from TLC's labelled state graph of
// spec/Loader.tla:
//   conformance (B <id> S): a behaviour of the repaired protocol is stepped through the real
//       LoadTimeZone action by action - worker threads park at the GOOGLE_CCTZ_VERIF yield hooks and
//       inside the (recording, blocking) zone_info_source_factory; after every action the observable
//       abstract state is logged (where the thread is now, who is inside the factory, factory calls
//       per name, returned value/identity) for spec/LoaderTrace.tla to compare with the model state;
//   attack (B <id> A): a behaviour of the *unserialised* protocol (which violates C20 in the model)
//       is attempted; the real code must refuse it (a thread blocks) - if it can be realised the
//       factory observations show the overlap / the second call;
//   stress (T <threads> <iterations>): free-running threads, every harness-side event logged in
//       a global order for the linear history check in LoaderTrace.
// Verdicts rest on factory observations and returned values, never on the hooks themselves.
//
// usage: replay_loader <behaviours-file> <out.ndjson> <good-zone-file>
#include <atomic>
#include <cerrno>
#include <chrono>
#include <condition_variable>
#include <fstream>
#include <stdexcept>
#include <functional>
#include <map>
#include <memory>
#include <mutex>
#include <set>
#include <sstream>
#include <thread>
#include <vector>

#include "cctz/time_zone.h"
#include "cctz/zone_info_source.h"
#include "trace.h"

using namespace cctz;
namespace cctz_verif { extern void (*yield_hook)(int point, const char* name); }

static std::mutex G;
static std::condition_variable CV;
static std::string g_good;
static FILE* g_out;
static bool g_controlled = false;   // workers park at hooks / in the factory
static bool g_log_stress = false;
static thread_local int my_tid = -1;

struct W {
  std::thread th;
  // command channel
  bool has_cmd = false, quit = false;
  std::string cmd;
  // park state (under G)
  int parked_at = -1;      // -1: running; >= 0: hook point; 10: inside the factory
  long park_gen = 0;
  int tokens = 0;
  // call state
  bool in_call = false;
  long ret_gen = 0;
  bool ok = false, isutc = false;
  int id = -1;
  std::string cur;
};
static std::vector<W*> ws;
static std::vector<time_zone> g_known;   // identity classes of returned zones
static std::set<int> g_infac;
static std::map<std::string, int> g_calls;
static std::map<std::string, std::set<int>> g_retids;   // per behaviour: identity classes returned per name
static bool g_okmismatch = false;
static bool g_overlap = false, g_wrongthread = false;
static long g_seq = 0;

class MemSource : public ZoneInfoSource {
 public:
  explicit MemSource(const std::string& d) : d_(d), pos_(0) {}
  std::size_t Read(void* p, std::size_t n) override { n = std::min(n, d_.size() - pos_); memcpy(p, d_.data() + pos_, n); pos_ += n; return n; }
  int Skip(std::size_t n) override { pos_ += std::min(n, d_.size() - pos_); return 0; }
 private:
  std::string d_; std::size_t pos_;
};
static std::string base_of(const std::string& name) { size_t p = name.rfind('/'); return p == std::string::npos ? name : name.substr(p + 1); }
static const char* kind_of(const std::string& name) {
  if (name == "UTC" || name == "UTC0") return "utc";
  if (name.compare(0, 9, "Fixed/UTC") == 0) return "fixed";
  std::string b = base_of(name);
  return (b.compare(0, 3, "bad") == 0 || b == "A") ? "bad" : "good";
}
static void slog(const char* ev, int th, const std::string& name, const std::string& extra = "") {
  // caller holds G
  fprintf(g_out, "{\"e\":\"%s\",\"seq\":%ld,\"th\":\"t%d\",\"n\":%s,\"k\":\"%s\"%s}\n", ev, ++g_seq, th + 1,
          vt::jstr(name).c_str(), kind_of(name), extra.c_str());
}

static void park(std::unique_lock<std::mutex>& lk, W& w, int point) {
  w.parked_at = point;
  ++w.park_gen;
  CV.notify_all();
  CV.wait(lk, [&] { return w.tokens > 0; });
  --w.tokens;
  w.parked_at = -1;
}
static void hook(int point, const char* name) {
  if (my_tid < 0 || !g_controlled) return;
  std::unique_lock<std::mutex> lk(G);
  park(lk, *ws[my_tid], point);
}
// directed scenarios (tags R and X): a factory that loads the name it is asked for itself (allowed: the load mutex
// is recursive), and one that throws
static std::atomic<bool> g_atexit_mode(false);
static std::string* g_good_leaked = nullptr;
struct AtExitState {
  std::atomic<bool> stop{false};
  std::atomic<long> bad{0}, ops{0};
  std::vector<std::thread> threads;
  std::vector<std::string> names;
  std::vector<time_zone> ref;
  std::vector<bool> refok;
  std::string out;
};
static AtExitState* g_ax = nullptr;
static void atexit_handler() {
  // runs after the destructors of everything that was constructed later (e.g. a function-local static of the library)
  std::this_thread::sleep_for(std::chrono::milliseconds(150));
  g_ax->stop = true;
  for (auto& t : g_ax->threads) t.join();
  FILE* f = fopen(g_ax->out.c_str(), "w");
  if (f) { fprintf(f, "{\"e\":\"AtExit\",\"ops\":%ld,\"bad\":%ld}\n", g_ax->ops.load(), g_ax->bad.load()); fclose(f); }
  _exit(0);
}
static thread_local int t_depth = 0;
static thread_local time_zone t_nested;
static thread_local bool t_nested_ok = false;
static std::atomic<int> g_x_inside(0), g_x_overlap(0), g_x_wait(0);
static std::unique_ptr<ZoneInfoSource> Factory(
    const std::string& name, const std::function<std::unique_ptr<ZoneInfoSource>(const std::string&)>&) {
  if (g_atexit_mode.load()) {   // process-teardown scenario: no bookkeeping in objects that are being destroyed
    return strcmp(kind_of(name), "good") == 0 ? std::unique_ptr<ZoneInfoSource>(new MemSource(*g_good_leaked)) : nullptr;
  }
  {
    std::string b0 = base_of(name);
    if (b0.compare(0, 2, "re") == 0) {          // re-entrant: reA = both get data, reB = the outer call gets none
      if (t_depth == 0) {
        t_depth = 1;
        t_nested_ok = load_time_zone(name, &t_nested);
        t_depth = 0;
        if (b0.compare(0, 3, "reB") == 0) return nullptr;
      }
      return std::unique_ptr<ZoneInfoSource>(new MemSource(g_good));
    }
    if (b0.compare(0, 3, "thr") == 0) throw std::runtime_error("factory failure");
    if (b0.compare(0, 2, "xs") == 0) {          // slow factories of scenario X: is anybody else inside?
      if (g_x_inside.fetch_add(1) != 0) g_x_overlap = 1;
      for (int i = 0; i < 300 && g_x_wait.load(); ++i) std::this_thread::sleep_for(std::chrono::milliseconds(1));
      g_x_inside.fetch_sub(1);
      return std::unique_ptr<ZoneInfoSource>(new MemSource(g_good));
    }
  }
  {
    std::unique_lock<std::mutex> lk(G);
    int t = my_tid;
    ++g_calls[name];
    if (!g_infac.empty()) g_overlap = true;
    g_infac.insert(t);
    if (t < 0 || !ws[t]->in_call || ws[t]->cur != name) g_wrongthread = true;
    if (g_log_stress) slog("SFacEnter", t, name);
    if (g_controlled && t >= 0) park(lk, *ws[t], 10);
    else { lk.unlock(); std::this_thread::sleep_for(std::chrono::microseconds(200)); lk.lock(); }
    g_infac.erase(t);
    if (g_log_stress) slog("SFacExit", t, name);
  }
  if (strcmp(kind_of(name), "good") == 0) return std::unique_ptr<ZoneInfoSource>(new MemSource(g_good));
  // two ways for a name to fail: the source has nothing ("bad" -> nullptr), or it serves data that is rejected
  // ("bad2": a truncated copy of the good data, "bad3...": not TZif at all) - either way one call per name
  // A failing source leaves an OS error code behind as a real one would (out of descriptors, no such file, ...):
  // whatever the reason, the failure is remembered and the factory is not asked again.
  static const int kErrnos[] = {EMFILE, ENOENT, ENFILE, ENOMEM, EACCES, EINTR, 0, EAGAIN, EIO};
  static std::atomic<unsigned> nerr{0};
  errno = kErrnos[nerr++ % (sizeof kErrnos / sizeof kErrnos[0])];
  std::string b = base_of(name);
  if (b == "bad2") return std::unique_ptr<ZoneInfoSource>(new MemSource(g_good.substr(0, g_good.size() / 2)));
  if (b.compare(0, 4, "bad3") == 0) return std::unique_ptr<ZoneInfoSource>(new MemSource(std::string("this is not zone data\n")));
  return nullptr;
}
namespace cctz_extension { ZoneInfoSourceFactory zone_info_source_factory = Factory; }

// ---- use of shared zone values from many threads: answers must equal the single-threaded ones ----
struct Ref { std::vector<int64_t> ts; std::vector<civil_second> cs; std::vector<int> off; std::vector<int64_t> pre;
             std::vector<std::string> fmt; std::vector<int64_t> nxt; };
static Ref g_ref;
static void build_ref() {
  time_zone tz;
  load_time_zone("REF/a", &tz);
  vt::Rng r(99);
  for (int i = 0; i < 64; ++i) {
    int64_t t = (i % 2) ? r.range(-2000000000LL, 4000000000LL) : 1300000000LL + r.range(-40000000, 40000000);
    auto tp = std::chrono::time_point<std::chrono::system_clock, seconds>(seconds(t));
    auto al = tz.lookup(tp);
    g_ref.ts.push_back(t); g_ref.cs.push_back(al.cs); g_ref.off.push_back(al.offset);
    g_ref.pre.push_back(tz.lookup(al.cs).pre.time_since_epoch().count());
    g_ref.fmt.push_back(cctz::format("%Y-%m-%d %H:%M:%S %Ez %Z", tp, tz));
    time_zone::civil_transition tr;
    g_ref.nxt.push_back(tz.next_transition(tp, &tr) ? (tr.to - civil_second()) : -1);
  }
}
static int use_zone(const time_zone& tz, vt::Rng& r) {
  int bad = 0;
  for (int k = 0; k < 6; ++k) {
    size_t i = (size_t)r.below(g_ref.ts.size());
    auto tp = std::chrono::time_point<std::chrono::system_clock, seconds>(seconds(g_ref.ts[i]));
    switch (r.below(5)) {
      case 0: { auto al = tz.lookup(tp); if (al.cs != g_ref.cs[i] || al.offset != g_ref.off[i]) ++bad; break; }
      case 1: { if (tz.lookup(g_ref.cs[i]).pre.time_since_epoch().count() != g_ref.pre[i]) ++bad; break; }
      case 2: { if (cctz::format("%Y-%m-%d %H:%M:%S %Ez %Z", tp, tz) != g_ref.fmt[i]) ++bad; break; }
      case 3: { time_zone::civil_transition tr; int64_t v = tz.next_transition(tp, &tr) ? (tr.to - civil_second()) : -1; if (v != g_ref.nxt[i]) ++bad; break; }
      default: { std::chrono::time_point<std::chrono::system_clock, seconds> out;
                 if (!cctz::parse("%Y-%m-%d %H:%M:%S %Ez %Z", g_ref.fmt[i], tz, &out) || out != tp) ++bad; break; }
    }
  }
  return bad;
}

static void do_call(W& w, int tid, const std::string& name) {
  { std::unique_lock<std::mutex> lk(G); w.in_call = true; w.cur = name; if (g_log_stress) slog("SCall", tid, name); }
  time_zone tz;
  bool ok = load_time_zone(name, &tz);
  // use of the (shared) zone value from this thread: const operations only
  int usebad = 0;
  if (g_log_stress && ok && !g_ref.ts.empty() && strcmp(kind_of(name), "good") == 0) { vt::Rng r((uint64_t)tid * 7919 + (uint64_t)w.ret_gen); usebad = use_zone(tz, r); }
  std::unique_lock<std::mutex> lk(G);
  w.ok = ok;
  w.isutc = (tz == utc_time_zone());
  w.id = -1;
  for (size_t i = 0; i < g_known.size(); ++i) if (g_known[i] == tz) { w.id = (int)i; break; }
  if (w.id < 0) { g_known.push_back(tz); w.id = (int)g_known.size() - 1; }
  g_retids[name].insert(w.id);
  {
    const char* k = kind_of(name);
    bool want_ok = strcmp(k, "bad") != 0, want_utc = strcmp(k, "bad") == 0 || strcmp(k, "utc") == 0;
    if (ok != want_ok || w.isutc != want_utc) g_okmismatch = true;
  }
  w.in_call = false;
  ++w.ret_gen;
  if (g_log_stress) {
    char b[128]; snprintf(b, sizeof b, ",\"ok\":%d,\"isutc\":%d,\"id\":%d,\"usebad\":%d", ok ? 1 : 0, w.isutc ? 1 : 0, w.id, usebad);
    slog("SRet", tid, name, b);
  }
  CV.notify_all();
}
static void worker(int tid) {
  my_tid = tid;
  W& w = *ws[tid];
  for (;;) {
    std::string name;
    {
      std::unique_lock<std::mutex> lk(G);
      CV.wait(lk, [&] { return w.has_cmd || w.quit; });
      if (w.quit) return;
      name = w.cmd;
      w.has_cmd = false;
    }
    do_call(w, tid, name);
  }
}

// Scheduler primitives -------------------------------------------------------------------------
enum { RET = -1, TIMEOUT = -2 };
// let worker t run (start the given call, or release it from its park point) until it parks again
// or returns; returns the new park point, RET or TIMEOUT
static int step(int t, const std::string* call, int timeout_ms) {
  std::unique_lock<std::mutex> lk(G);
  W& w = *ws[t];
  long pg = w.park_gen, rg = w.ret_gen;
  if (call) { w.cmd = *call; w.has_cmd = true; }
  else ++w.tokens;
  CV.notify_all();
  bool done = CV.wait_for(lk, std::chrono::milliseconds(timeout_ms), [&] { return w.park_gen != pg || w.ret_gen != rg; });
  if (!done) return TIMEOUT;
  if (w.ret_gen != rg) return RET;
  return w.parked_at;
}
// wait (no release) for a thread that was released earlier but blocked on a mutex
static int await(int t, long pg, long rg, int timeout_ms) {
  std::unique_lock<std::mutex> lk(G);
  W& w = *ws[t];
  bool done = CV.wait_for(lk, std::chrono::milliseconds(timeout_ms), [&] { return w.park_gen != pg || w.ret_gen != rg; });
  if (!done) return TIMEOUT;
  return w.ret_gen != rg ? RET : w.parked_at;
}
static std::string obs_json(int t) {
  // caller holds G
  std::string s = ",\"infac\":[";
  bool f = true;
  for (int x : g_infac) { s += (f ? "\"t" : ",\"t") + std::to_string(x + 1) + "\""; f = false; }
  s += "],\"calls\":{";
  f = true;
  for (auto& kv : g_calls) { s += (f ? "" : ","); s += vt::jstr((base_of(kv.first) == "A" || base_of(kv.first) == "bad3") ? std::string("bad") : kv.first.compare(0, 7, "Fixed/L") == 0 ? std::string("b") : base_of(kv.first)) + ":" + std::to_string(kv.second); f = false; }
  s += "}";
  return s;
}
static void drain(int k) {
  // release everything until all workers are idle
  for (int round = 0; round < 1500; ++round) {
    bool busy = false;
    {
      std::unique_lock<std::mutex> lk(G);
      for (int t = 0; t < k; ++t) {
        W& w = *ws[t];
        if (w.parked_at >= 0) { ++w.tokens; busy = true; }
        else if (w.in_call || w.has_cmd) busy = true;
      }
      CV.notify_all();
    }
    if (!busy) return;
    std::this_thread::sleep_for(std::chrono::milliseconds(2));
  }
}

static std::string real_name(long beh, const std::string& n) {
  if (n == "utc") return "UTC";
  if (n == "fx" || n == "fx2") {
    long o = 1 + (beh * 2 + (n == "fx2")) % 86399;
    char b[40]; snprintf(b, sizeof b, "Fixed/UTC+%02ld:%02ld:%02ld", o / 3600, o / 60 % 60, o % 60);
    return b;
  }
  // the model's name "bad" is spelled as the good name "a" of the same behaviour in the other letter case: a name the
  // data source does not have, equal to a loadable one ignoring case (names are distinct strings: no sharing)
  // the good name "b" lives in the "Fixed/" name space without being a fixed-offset name (it is served by the factory)
  if (n == "b") return "Fixed/L" + std::to_string(beh) + "b";
  if (n == "bad") return (beh % 2) ? "l" + std::to_string(beh) + "/A" : "L" + std::to_string(beh) + "/bad3";   // bad3: served, but not TZif
  return "L" + std::to_string(beh) + "/" + n;
}

int main(int argc, char** argv) {
  if (argc < 4) return 2;
  std::ifstream in(argv[1]);
  g_out = fopen(argv[2], "w");
  { std::ifstream zf(argv[3], std::ios::binary); g_good.assign((std::istreambuf_iterator<char>(zf)), std::istreambuf_iterator<char>()); }
  // --atexit: threads keep loading and comparing zones while the process is exiting (main has returned, static
  // destructors are running): the library keeps its state alive on purpose, so nothing may change for them
  if (argc > 4 && strcmp(argv[4], "--atexit") == 0) {
    g_ax = new AtExitState;
    g_ax->out = argv[2];
    atexit(atexit_handler);
    { std::ifstream zf(argv[3], std::ios::binary); g_good_leaked = new std::string((std::istreambuf_iterator<char>(zf)), std::istreambuf_iterator<char>()); }
    g_atexit_mode = true;
    g_ax->names = {"AX/a", "AX/b", "Fixed/UTC+01:00:00", "AX/bad", "UTC"};
    for (const std::string& n : g_ax->names) { time_zone tz; bool ok = load_time_zone(n, &tz); g_ax->ref.push_back(tz); g_ax->refok.push_back(ok); }
    for (int i = 0; i < 4; ++i) {
      g_ax->threads.emplace_back([]() {
        AtExitState* S = g_ax;
        while (!S->stop.load()) {
          for (size_t k = 0; k < S->names.size(); ++k) {
            time_zone tz;
            bool ok = load_time_zone(S->names[k], &tz);
            if (ok != S->refok[k] || !(tz == S->ref[k])) ++S->bad;
            ++S->ops;
          }
        }
      });
    }
    std::this_thread::sleep_for(std::chrono::milliseconds(40));
    return 0;   // exit() begins
  }
  // --firstuse: the very first calls into the library made by this process, from 8 threads released together:
  // all of them must see one and the same UTC value, and a name that cannot be loaded fails for all of them
  if (argc > 4 && strcmp(argv[4], "--firstuse") == 0) {
    g_out = fopen(argv[2], "w");
    const int N = 8;
    std::atomic<int> ready(0), go(0);
    time_zone got[N];
    bool okv[N];
    std::vector<std::thread> ths;
    for (int i = 0; i < N; ++i) {
      ths.emplace_back([&, i]() {
        ++ready;
        while (!go.load(std::memory_order_acquire)) {}
        okv[i] = true;
        switch (i % 4) {
          case 0: got[i] = utc_time_zone(); break;
          case 1: okv[i] = load_time_zone("L0/bad2", &got[i]); break;
          case 2: { time_zone d; (void)d.name(); got[i] = d; break; }
          default: okv[i] = load_time_zone("UTC", &got[i]); break;
        }
      });
    }
    while (ready.load() < N) {}
    go.store(1, std::memory_order_release);
    for (auto& th : ths) th.join();
    time_zone u = utc_time_zone();
    int equal = 1, badok = 1;
    for (int i = 0; i < N; ++i) {
      if (!(got[i] == u)) equal = 0;
      if (i % 4 == 1 && okv[i]) badok = 0;
      if (i % 4 == 3 && !okv[i]) badok = 0;
    }
    time_zone again;
    if (load_time_zone("L0/bad2", &again) || !(again == u)) badok = 0;
    fprintf(g_out, "{\"e\":\"FirstUse\",\"threads\":%d,\"equal\":%d,\"badok\":%d}\n", N, equal, badok);
    fclose(g_out);
    return 0;
  }
  // --fresh: nothing is loaded before the first behaviour (the very first loads of the process race)
  bool fresh = argc > 4 && strcmp(argv[4], "--fresh") == 0;
  if (!fresh) build_ref();
  cctz_verif::yield_hook = hook;
  const int K = 4;
  for (int i = 0; i < K; ++i) ws.push_back(new W);
  for (int i = 0; i < K; ++i) ws[i]->th = std::thread(worker, i);
  std::string line;
  long beh = 0;
  char mode = 'S';
  long n_beh = 0, n_steps = 0, n_lost = 0;
  bool skip_rest = false;
  std::map<int, std::pair<long, long>> blocked;  // attack mode: released-but-blocked threads
  auto begin_beh = [&]() {
    std::unique_lock<std::mutex> lk(G);
    g_calls.clear(); g_infac.clear(); g_overlap = false; g_wrongthread = false; g_known.clear(); g_retids.clear(); g_okmismatch = false;
    g_known.push_back(utc_time_zone());
    blocked.clear();
  };
  while (std::getline(in, line)) {
    std::istringstream is(line);
    std::string tag;
    is >> tag;
    if (tag == "B") {
      std::string m;
      is >> beh >> m;
      mode = m[0];
      g_controlled = true;
      g_log_stress = false;
      begin_beh();
      ++n_beh;
      skip_rest = (mode == 'S' && n_lost > 25);   // the code does not follow the model any more: stop trying
      if (mode == 'S') fprintf(g_out, "{\"e\":\"LBegin\",\"b\":%ld}\n", beh);
    } else if (tag == "S") {
      std::string act, tn, n;
      is >> act >> tn >> n;
      int t = atoi(tn.c_str() + 1) - 1;
      ++n_steps;
      if (mode == 'S') {
        if (skip_rest) continue;
        std::string rn = real_name(beh, n);
        // the worker must be where the model thinks it is: idle for Call, parked otherwise
        bool feasible;
        { std::unique_lock<std::mutex> lk(G); W& w0 = *ws[t]; feasible = (act == "Call") ? (!w0.in_call && !w0.has_cmd && w0.parked_at < 0) : (w0.parked_at >= 0); }
        int at = !feasible ? -3 : (act == "Call") ? step(t, &rn, 8000) : step(t, nullptr, 8000);
        if (at == TIMEOUT || at == -3) { skip_rest = true; ++n_lost; }
        std::unique_lock<std::mutex> lk(G);
        W& w = *ws[t];
        char b[160];
        snprintf(b, sizeof b, ",\"at\":%d,\"ret\":{\"ok\":%d,\"isutc\":%d,\"id\":%d}", at, at == RET ? (w.ok ? 1 : 0) : 0,
                 at == RET ? (w.isutc ? 1 : 0) : 0, at == RET ? w.id : -1);
        fprintf(g_out, "{\"e\":\"LStep\",\"b\":%ld,\"act\":\"%s\",\"t\":\"%s\",\"n\":\"%s\"%s%s,\"overlap\":%d,\"wrongthread\":%d}\n", beh,
                act.c_str(), tn.c_str(), n.c_str(), b, obs_json(t).c_str(), g_overlap ? 1 : 0, g_wrongthread ? 1 : 0);
      } else {
        // attack mode: actions of the unserialised protocol: Call, Check1, Construct, FactoryReturn, Insert
        auto advance = [&](int t2, const std::string* call) -> int {
          W& w = *ws[t2];
          long pg, rg;
          { std::unique_lock<std::mutex> lk(G); pg = w.park_gen; rg = w.ret_gen; }
          int at;
          if (blocked.count(t2)) { at = await(t2, blocked[t2].first, blocked[t2].second, 25); if (at != TIMEOUT) blocked.erase(t2); }
          else {
            at = step(t2, call, 25);
            if (at == TIMEOUT) blocked[t2] = std::make_pair(pg, rg);
          }
          return at;
        };
        if (act == "Call") { std::string rn = real_name(beh, n); advance(t, &rn); }
        else if (act == "Construct") {
          // P1 -> (load mutex) -> P2 -> P3 -> factory / P4
          for (int i = 0; i < 4; ++i) {
            int at = advance(t, nullptr);
            if (at == TIMEOUT || at == RET || at == 10 || at == 4) break;
          }
        } else advance(t, nullptr);
      }
    } else if (tag == "E") {
      if (mode == 'S') {
        fprintf(g_out, "{\"e\":\"LEnd\",\"b\":%ld}\n", beh);
        drain(K);
      } else {
        drain(K);
        std::unique_lock<std::mutex> lk(G);
        int maxc = 0;
        for (auto& kv : g_calls) maxc = std::max(maxc, kv.second);
        int agree = 1;
        for (auto& kv : g_retids) if (kv.second.size() != 1) agree = 0;
        fprintf(g_out, "{\"e\":\"Attack\",\"b\":%ld,\"overlap\":%d,\"maxcalls\":%d,\"wrongthread\":%d,\"agree\":%d,\"okmismatch\":%d}\n", beh,
                g_overlap ? 1 : 0, maxc, g_wrongthread ? 1 : 0, agree, g_okmismatch ? 1 : 0);
      }
    } else if (tag == "T") {
      // stress: free running
      int nth, iters;
      is >> nth >> iters;
      drain(K);
      g_controlled = false;
      begin_beh();
      g_log_stress = true;
      std::atomic<int> go(0);
      std::vector<std::thread> ths;
      long base = 1000000 + beh;
      for (int i = 0; i < nth; ++i) {
        ths.emplace_back([&, i]() {
          // these threads are not scheduler workers: give them a W so that the factory can attribute calls
          vt::Rng r(1234 + i);
          while (!go.load()) std::this_thread::yield();
          for (int j = 0; j < iters; ++j) {
            static const char* kNames[] = {"a", "b", "c", "bad", "bad2", "fx", "fx2", "utc", "fa", "fbad"};
            const char* pick = kNames[r.below(10)];
            // "fa" / "fbad": the names "a" / "bad2" behind the "file:" prefix - different names for the loader and for the factory
            std::string n = strcmp(pick, "fa") == 0 ? "file:" + real_name(base + (long)r.below(3), "a")
                            : strcmp(pick, "fbad") == 0 ? "file:" + real_name(base + (long)r.below(3), "bad2")
                            : real_name(base + (long)r.below(3), pick);
            W& w = *ws[K + i];
            my_tid = K + i;
            do_call(w, K + i, n);
          }
        });
      }
      {
        std::unique_lock<std::mutex> lk(G);
        // nothing
      }
      go.store(1);
      for (auto& th : ths) th.join();
      g_log_stress = false;
      fprintf(g_out, "{\"e\":\"SEnd\"}\n");
      ++beh;
    } else if (tag == "R") {
      // a factory that re-enters load_time_zone for the very name it was asked for: the value it obtained inside, the
      // value the outer call returns and every later load must be one and the same
      drain(K);
      g_controlled = false;
      long k; is >> k;
      for (const char* var : {"reA", "reB"}) {
        std::string n = "L" + std::to_string(9000000 + k) + "/" + var;
        time_zone outer, again;
        bool ok1 = load_time_zone(n, &outer);
        bool ok2 = load_time_zone(n, &again);
        int same = (ok1 && ok2 && t_nested_ok && outer == t_nested && again == outer) ? 1 : 0;
        fprintf(g_out, "{\"e\":\"Reentrant\",\"variant\":\"%s\",\"same\":%d}\n", var, same);
      }
    } else if (tag == "X") {
      // a factory that throws: the exception reaches the caller; afterwards the loader must still serialise the
      // factory calls of that thread with those of others
      drain(K);
      g_controlled = false;
      long k; is >> k;
      int threw = 0;
      g_x_overlap = 0;
      std::thread a([&]() {
        time_zone tz;
        try { load_time_zone("L" + std::to_string(9100000 + k) + "/thr", &tz); } catch (const std::exception&) { threw = 1; }
        g_x_wait = 1;
        load_time_zone("L" + std::to_string(9100000 + k) + "/xsA", &tz);
      });
      std::thread b([&]() {
        time_zone tz;
        while (!g_x_wait.load() || g_x_inside.load() == 0) std::this_thread::yield();
        load_time_zone("L" + std::to_string(9100000 + k) + "/xsB", &tz);
        g_x_wait = 0;
      });
      a.join(); b.join();
      g_x_wait = 0;
      fprintf(g_out, "{\"e\":\"AfterThrow\",\"threw\":%d,\"overlap\":%d}\n", threw, g_x_overlap.load());
    } else if (tag == "H") {
      // shared-value hammer: nth threads use ONE loaded zone value concurrently, each thread staying in its own
      // neighbourhood of the time line (so that the zone's internal lookup shortcuts keep being invalidated by
      // the others); every answer must equal the single-threaded reference
      int nth, iters;
      is >> nth >> iters;
      drain(K);
      g_controlled = false;
      long ops = 0, badn = 0;
      if (!g_ref.ts.empty()) {
        time_zone tz;
        load_time_zone("REF/a", &tz);
        std::atomic<int> go(0);
        std::atomic<long> bad(0), done(0);
        std::vector<std::thread> ths;
        size_t nref = g_ref.ts.size();
        for (int i = 0; i < nth; ++i) {
          ths.emplace_back([&, i]() {
            while (!go.load()) std::this_thread::yield();
            size_t a = (size_t)i % nref, b = ((size_t)i * 7 + 3) % nref;
            long lb = 0;
            for (int j = 0; j < iters; ++j) {
              size_t k = (j & 1) ? a : b;
              auto tp = std::chrono::time_point<std::chrono::system_clock, seconds>(seconds(g_ref.ts[k]));
              if (j & 2) { auto al = tz.lookup(tp); if (al.cs != g_ref.cs[k] || al.offset != g_ref.off[k]) ++lb; }
              else { if (tz.lookup(g_ref.cs[k]).pre.time_since_epoch().count() != g_ref.pre[k]) ++lb; }
            }
            bad += lb; done += iters;
          });
        }
        go.store(1);
        for (auto& th : ths) th.join();
        ops = done.load(); badn = bad.load();
      }
      fprintf(g_out, "{\"e\":\"SHammer\",\"threads\":%d,\"ops\":%ld,\"bad\":%ld}\n", nth, ops, badn);
      // fixed_time_zone(offset) called by all threads at once with different offsets: each answer is the zone of *its* offset
      {
        const long offs[8] = {3600, -3600, 19800, -28800, 45296, -1, 86400, -86399};
        std::string names[8];
        for (int k = 0; k < 8; ++k) names[k] = fixed_time_zone(seconds(offs[k])).name();
        std::atomic<int> go3(0);
        std::atomic<long> bad3(0), done3(0);
        std::vector<std::thread> th3;
        for (int i = 0; i < nth; ++i) {
          th3.emplace_back([&, i]() {
            while (!go3.load()) std::this_thread::yield();
            long lb = 0;
            int n3 = iters / 2;
            unsigned x = 12345u + (unsigned)i * 7919u;
            for (int j = 0; j < n3; ++j) {
              x = x * 1103515245u + 12345u;
              int k = (int)((x >> 16) % 8);
              time_zone z = fixed_time_zone(seconds(offs[k]));
              if (z.lookup(std::chrono::time_point<std::chrono::system_clock, seconds>(seconds(0))).offset != offs[k] || z.name() != names[k]) ++lb;
            }
            bad3 += lb; done3 += n3;
          });
        }
        go3.store(1);
        for (auto& th : th3) th.join();
        fprintf(g_out, "{\"e\":\"SHammer\",\"threads\":%d,\"ops\":%ld,\"bad\":%ld,\"fixed\":1}\n", nth, done3.load(), bad3.load());
      }
      // the same for zones backed by the C library ("libc:" names): their own single-threaded answers are the reference
      {
        time_zone lz[2];
        bool lok[2] = {load_time_zone("libc:UTC", &lz[0]), load_time_zone("libc:localtime", &lz[1])};
        long lops = 0, lbad = 0;
        if (lok[0] && lok[1]) {
          std::vector<int64_t> ts;
          vt::Rng rr(7);
          for (int i = 0; i < 48; ++i) ts.push_back(rr.range(-2000000000LL, 4000000000LL));
          std::vector<civil_second> ref[2];
          std::vector<int> roff[2];
          for (int z = 0; z < 2; ++z)
            for (int64_t t : ts) { auto al = lz[z].lookup(std::chrono::time_point<std::chrono::system_clock, seconds>(seconds(t))); ref[z].push_back(al.cs); roff[z].push_back(al.offset); }
          std::atomic<int> go2(0);
          std::atomic<long> bad2(0), done2(0);
          std::vector<std::thread> th2;
          for (int i = 0; i < nth; ++i) {
            th2.emplace_back([&, i]() {
              while (!go2.load()) std::this_thread::yield();
              long lb = 0;
              int n2 = iters / 4;
              for (int j = 0; j < n2; ++j) {
                int z = (i + j) & 1;
                size_t k = (size_t)(i * 5 + j) % ts.size();
                auto al = lz[z].lookup(std::chrono::time_point<std::chrono::system_clock, seconds>(seconds(ts[k])));
                if (al.cs != ref[z][k] || al.offset != roff[z][k]) ++lb;
              }
              bad2 += lb; done2 += n2;
            });
          }
          go2.store(1);
          for (auto& th : th2) th.join();
          lops = done2.load(); lbad = bad2.load();
        }
        fprintf(g_out, "{\"e\":\"SHammer\",\"threads\":%d,\"ops\":%ld,\"bad\":%ld,\"libc\":1}\n", nth, lops, lbad);
      }
      // two threads ask for the same never-seen name, the second one a swept fraction of a load later (so that over the rounds it
      // arrives at every point of the first one's load - also the points between its critical sections, where no yield hook is),
      // while others keep loading cached names: whoever wins, the factory is asked once per name
      {
        const int rounds = std::max(400, iters / 8);
        std::atomic<bool> stop(false);
        std::vector<std::thread> bg;
        for (int i = 0; i < 3; ++i)
          bg.emplace_back([&]() { time_zone z; while (!stop.load()) { load_time_zone("REF/a", &z); load_time_zone("UTC", &z); } });
        long dup = 0, unequal = 0;
        for (int r = 0; r < rounds; ++r) {
          const std::string name = "RC" + std::to_string(r) + "/a";
          std::atomic<int> go4(0);
          time_zone za, zb;
          bool oka = false, okb = false;
          const int delay_us = (r * 37) % 3000;
          std::thread ta([&]() { while (!go4.load()) {} oka = load_time_zone(name, &za); });
          std::thread tb([&]() {
            while (!go4.load()) {}
            auto until = std::chrono::steady_clock::now() + std::chrono::microseconds(delay_us);
            while (std::chrono::steady_clock::now() < until) {}
            okb = load_time_zone(name, &zb);
          });
          go4.store(1);
          ta.join(); tb.join();
          { std::unique_lock<std::mutex> lk(G); if (g_calls[name] != 1) ++dup; }
          if (!oka || !okb || !(za == zb)) ++unequal;
        }
        stop.store(true);
        for (auto& th : bg) th.join();
        fprintf(g_out, "{\"e\":\"SHammer\",\"threads\":5,\"ops\":%d,\"bad\":%ld,\"race\":1,\"unequal\":%ld}\n", rounds, dup + unequal, unequal);
      }
    } else if (tag == "TW") {
      int nth; is >> nth;
      std::unique_lock<std::mutex> lk(G);
      while ((int)ws.size() < K + nth) ws.push_back(new W);
    }
  }
  drain(K);
  { std::unique_lock<std::mutex> lk(G); for (int i = 0; i < K; ++i) ws[i]->quit = true; CV.notify_all(); }
  for (int i = 0; i < K; ++i) ws[i]->th.join();
  fclose(g_out);
  fprintf(stderr, "replay_loader: behaviours=%ld steps=%ld lost=%ld\n", n_beh, n_steps, n_lost);
  return 0;
}
