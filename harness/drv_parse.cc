// Driver for C09: cctz::detail::parse on (format, input) pairs.
// Input lines:  P <hex format> <hex input> <hex delegated spec>...
// The delegated specifier strings come from the specification (spec/GenParse.tla); for each of them
// the driver records what the C library's strptime does at every position of the input (consumed
// length, fields written - learnt from two differently pre-filled struct tm - and the %p/%I%p probe),
// so that the specification can replay the call as an uninterpreted function.
// usage: drv_parse <input> <out-prefix> <shards> <seed>     (TZDIR must point to zone data)
#define _XOPEN_SOURCE 700
#include <time.h>

#include <fstream>
#include <limits>
#include <sstream>

#include <locale>
#include <vector>

#include "cctz/time_zone.h"
#include "trace.h"

using namespace cctz;
typedef time_point<seconds> TP;
using vt::W;

static std::string unhex(const std::string& h) {
  std::string o;
  for (size_t i = 0; i + 1 < h.size(); i += 2) o.push_back((char)strtol(h.substr(i, 2).c_str(), nullptr, 16));
  return o;
}
static std::string bj(const std::string& b) {
  std::string s = "[";
  char buf[8];
  for (size_t i = 0; i < b.size(); ++i) { snprintf(buf, sizeof buf, i ? ",%d" : "%d", (unsigned char)b[i]); s += buf; }
  return s + "]";
}
static std::tm prefill(int k) {
  std::tm tm{};
  if (k == 0) { tm.tm_year = 70; tm.tm_mon = 0; tm.tm_mday = 1; tm.tm_hour = 0; tm.tm_min = 0; tm.tm_sec = 0; tm.tm_wday = 4; tm.tm_yday = 0; }
  else { tm.tm_year = 103; tm.tm_mon = 5; tm.tm_mday = 17; tm.tm_hour = 13; tm.tm_min = 41; tm.tm_sec = 29; tm.tm_wday = 2; tm.tm_yday = 167; }
  return tm;
}
static std::string env_entry(const std::string& spec, const std::string& input, size_t pos) {
  std::tm a = prefill(0), b = prefill(1), a0 = a, b0 = b;
  const char* base = input.c_str() + pos;
  const char* ra = strptime(base, spec.c_str(), &a);
  const char* rb = strptime(base, spec.c_str(), &b);
  std::string s = "{\"spec\":" + bj(spec) + ",\"pos\":" + std::to_string(pos);
  bool stable = (ra == nullptr) == (rb == nullptr) && (ra == nullptr || ra == rb);
  std::string w = "{";
  if (ra && rb) {
    bool first = true;
    auto fld = [&](const char* name, int va, int vb, int pa, int pb) {
      if (va == pa && vb == pb) return;            // untouched in both runs
      if (va != vb) { stable = false; return; }    // depends on what was there before
      w += std::string(first ? "" : ",") + "\"" + name + "\":" + std::to_string(va);
      first = false;
    };
    fld("year", a.tm_year, b.tm_year, a0.tm_year, b0.tm_year);
    fld("mon", a.tm_mon, b.tm_mon, a0.tm_mon, b0.tm_mon);
    fld("mday", a.tm_mday, b.tm_mday, a0.tm_mday, b0.tm_mday);
    fld("hour", a.tm_hour, b.tm_hour, a0.tm_hour, b0.tm_hour);
    fld("min", a.tm_min, b.tm_min, a0.tm_min, b0.tm_min);
    fld("sec", a.tm_sec, b.tm_sec, a0.tm_sec, b0.tm_sec);
    fld("wday", a.tm_wday, b.tm_wday, a0.tm_wday, b0.tm_wday);
  }
  w += "}";
  int pm = 0;
  if (spec == "%p" && ra) {  // the probe parse() itself uses to learn AM/PM
    std::string t = "1" + std::string(base, (size_t)(ra - base));
    std::tm tmp{};
    strptime(t.c_str(), "%I%p", &tmp);
    pm = tmp.tm_hour == 13;
  }
  s += std::string(",\"ok\":") + (ra ? "1" : "0") + ",\"used\":" + std::to_string(ra ? (long)(ra - base) : 0) + ",\"w\":" + w +
       ",\"stable\":" + (stable ? "true" : "false") + ",\"pm\":" + std::to_string(pm) + "}";
  return s;
}

// A process-wide C++ locale whose character classification differs from the C table (the "CSV" idiom: ',' and ';' are
// space, blank and tab are not): parse()'s grammar is fixed - what it skips as white space does not depend on it.
struct CsvCtype : std::ctype<char> {
  static const mask* table() {
    static std::vector<mask> v(classic_table(), classic_table() + table_size);
    v[(unsigned char)','] |= space; v[(unsigned char)';'] |= space;
    v[(unsigned char)' '] &= ~space; v[(unsigned char)'\t'] &= ~space; v[(unsigned char)'\n'] &= ~space;
    v[(unsigned char)'5'] |= space; v[(unsigned char)'A'] &= ~(alpha | upper);
    return &v[0];
  }
  explicit CsvCtype(std::size_t refs = 0) : std::ctype<char>(table(), false, refs) {}
};

int main(int argc, char** argv) {
  if (argc < 5) return 2;
  const std::locale csv(std::locale::classic(), new CsvCtype);
  vt::install_trap_handler();
  std::ifstream in(argv[1]);
  int nsh = atoi(argv[3]);
  vt::Shards out(argv[2], nsh);
  vt::Rng r(strtoull(argv[4], nullptr, 10));
  // zones: fixed offsets are described by their offset; real zones by a Load line carrying the bytes
  std::vector<long> fixed = {0, 19815, -28800, 3600, -30, 50400};
  std::vector<std::string> real = {"America/New_York", "Australia/Lord_Howe", "Europe/London"};
  std::vector<time_zone> rz;
  std::string tzdir = getenv("TZDIR") ? getenv("TZDIR") : "";
  for (size_t k = 0; k < real.size(); ++k) {
    time_zone tz;
    load_time_zone(real[k], &tz);
    rz.push_back(tz);
    std::ifstream zf(tzdir + "/" + real[k], std::ios::binary);
    std::string bytes((std::istreambuf_iterator<char>(zf)), std::istreambuf_iterator<char>());
    // every shard starts with the same Load lines so that z = index works in each of them
    for (int i = 0; i < nsh; ++i) out.emit("{\"e\":\"Load\",\"z\":" + std::to_string(k + 1) + ",\"name\":" + vt::jstr(real[k]) + ",\"bytes\":" + bj(bytes) + "}");
  }
  std::string line;
  uint64_t k = 0;
  while (std::getline(in, line)) {
    std::istringstream is(line);
    std::string tag, hf, hi;
    is >> tag >> hf >> hi;
    std::string fmt = hf == "-" ? std::string() : unhex(hf), input = hi == "-" ? std::string() : unhex(hi);
    std::vector<std::string> specs;
    std::string h;
    while (is >> h) specs.push_back(unhex(h));
    ++k;
    // tag "A": the pair is tried in every zone (cases whose answer depends on the zone's transitions)
    size_t nz = fixed.size() + rz.size();
    for (size_t zi = 0; zi < (tag == "A" ? nz : 1); ++zi) {
    int z = 0;
    long zoff = 0;
    time_zone tz;
    if (tag == "A") {
      if (zi < rz.size()) { z = (int)zi + 1; tz = rz[zi]; }
      else { zoff = fixed[zi - rz.size()]; tz = fixed_time_zone(seconds(zoff)); }
    } else if (k % 4 == 3) { z = (int)(k / 4 % rz.size()) + 1; tz = rz[(size_t)z - 1]; }
    else { zoff = fixed[(size_t)(k % fixed.size())]; tz = fixed_time_zone(seconds(zoff)); }
    TP t;
    detail::femtoseconds fs(0);
    int ub;
    bool ok = false;
    VT_GUARD(ub, ok = detail::parse(fmt, input, tz, &t, &fs));
    int gl = 1;
    if (!ub) {   // the same call with the other global locale installed: the same outcome
      TP t2;
      detail::femtoseconds fs2(0);
      bool ok2 = false;
      int ub2;
      std::locale::global(csv);
      VT_GUARD(ub2, ok2 = detail::parse(fmt, input, tz, &t2, &fs2));
      std::locale::global(std::locale::classic());
      if (ub2 || ok2 != ok || (ok && (t2 != t || fs2 != fs))) gl = 0;
    }
    std::string env = "[";
    bool first = true;
    if (input.find('\0') == std::string::npos)
      for (const std::string& sp : specs)
        for (size_t pos = 0; pos <= input.size(); ++pos) { env += (first ? "" : ",") + env_entry(sp, input, pos); first = false; }
    env += "]";
    out.emit("{\"e\":\"Parse\",\"fmt\":" + bj(fmt) + ",\"input\":" + bj(input) + ",\"z\":" + std::to_string(z) + ",\"zoff\":" + std::to_string(zoff) +
             ",\"ok\":" + (ok && !ub ? "1" : "0") + ",\"t\":" + W(ok && !ub ? t.time_since_epoch().count() : 0) + ",\"fs\":" +
             W(ok && !ub ? fs.count() : 0) + ",\"env\":" + env + ",\"gl\":" + std::to_string(gl) + ",\"ub\":" + std::to_string(ub) + "}");
  }
  }
  fprintf(stderr, "drv_parse: %llu events\n", (unsigned long long)out.count);
  out.close();
  return 0;
}
