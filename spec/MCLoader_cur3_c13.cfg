SPECIFICATION FairSpec
CONSTANTS
  Threads = {"t1", "t2", "t3"}
  Names <- MCNames
  Kind <- MCKind
  MaxCalls = 1
  SerializeLoads = FALSE
INVARIANTS TypeOK NoFactoryForFixed Agree SeqEquiv
PROPERTIES Sticky AllReturn
CHECK_DEADLOCK FALSE
