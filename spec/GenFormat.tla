------------------------------ MODULE GenFormat ------------------------------
(* spec -> impl: for each format string the specification says which stretches must be rendered by  *)
(* strftime, so that the harness records the C library's answer for exactly those.                  *)
EXTENDS Format, Json, IOUtils
RECURSIVE S2Q(_)
S2Q(S) == IF S = {} THEN <<>> ELSE LET x == CHOOSE x \in S : TRUE IN <<x>> \o S2Q(S \ {x})
In == ndJsonDeserialize(IOEnv.FORMATS)
ASSUME ndJsonSerialize(IOEnv.OUT, [i \in 1..Len(In) |-> [fmt |-> In[i].fmt, del |-> S2Q(Delegated(In[i].fmt))]])
=============================================================================
