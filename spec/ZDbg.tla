---- MODULE ZDbg ----
EXTENDS ZoneTrace
ASSUME PrintT(<<"class", Class, Dec[1].ok, StructOk(Dec[1]), ZT[1].rule, ZT[1].n, ZT[1].dflt, WellFormed(ZT[1])>>)
ASSUME PrintT(<<"ev2", TraceLog[2], Break(ZT[1], TraceLog[2].t)>>)
====
