------------------------------- MODULE Loader -------------------------------
(***************************************************************************)
(* The process-wide zone loader (time_zone::Impl::LoadTimeZone) as a state  *)
(* machine at the granularity of its critical sections, with the name       *)
(* cache, the zone data factory and the values every call returns.          *)
(*                                                                         *)
(* SerializeLoads = FALSE is the protocol of the pinned tree (the zone is         *)
(* constructed - and the factory called - outside any lock);                *)
(* SerializeLoads = TRUE adds a load-serialising mutex on the miss path with a    *)
(* re-check of the cache under it (the repaired protocol).                   *)
(*                                                                         *)
(* One action per critical section / hook point:                             *)
(*   Call -> Check1 -> [AcqLoad -> Check2] -> Construct -> [FactoryReturn]   *)
(*        -> Insert                                                          *)
(* Check1, Check2 and Insert are the three places the cache mutex is held;   *)
(* each is atomic because of that mutex.                                     *)
(***************************************************************************)
EXTENDS Naturals, FiniteSets, Sequences, TLC

CONSTANTS Threads,       \* thread identifiers
          Names,         \* zone names
          Kind,          \* Kind[n] \in {"good", "bad", "fixed", "utc"}
          MaxCalls,      \* load_time_zone calls per thread
          SerializeLoads      \* BOOLEAN: the load-serialising mutex is present

VARIABLES pc,        \* pc[t]: where thread t is inside load_time_zone ("idle" = outside)
          cur,       \* cur[t]: the name being loaded
          left,      \* left[t]: calls thread t may still start
          map,       \* the name cache: Names -> impl | NoneV
          loadLock,  \* holder of the load mutex, or "free"
          fresh,     \* fresh[t]: the Impl thread t constructed (NullV if the data was bad / absent)
          inFactory, \* threads currently executing the zone_info_source_factory
          calls,     \* calls[n]: number of factory invocations for name n so far
          facLog,    \* set of <<name, thread>>: who invoked the factory for which name
          results    \* results[t]: sequence of [name, ok, impl] returned to thread t
vars == <<pc, cur, left, map, loadLock, fresh, inFactory, calls, facLog, results>>

UTC == <<"UTC", "-">>             \* the one UTC implementation object (all values have the same shape)
NoneV == <<"none", "-">>          \* no cache entry
NullV == <<"null", "-">>          \* construction failed (bad or absent data)
Impl(n, t) == <<n, t>>           \* the Impl object thread t constructed for name n

Init == /\ pc = [t \in Threads |-> "idle"]
        /\ cur = [t \in Threads |-> CHOOSE n \in Names : TRUE]
        /\ left = [t \in Threads |-> MaxCalls]
        /\ map = [n \in Names |-> NoneV]
        /\ loadLock = "free"
        /\ fresh = [t \in Threads |-> NullV]
        /\ inFactory = {}
        /\ calls = [n \in Names |-> 0]
        /\ facLog = {}
        /\ results = [t \in Threads |-> <<>>]

Return(t, impl) == /\ results' = [results EXCEPT ![t] = Append(@, [name |-> cur[t], ok |-> impl # UTC, impl |-> impl])]
                   /\ pc' = [pc EXCEPT ![t] = "idle"]

\* load_time_zone(n) is entered; "UTC"-like names are answered without touching any shared state
Call(t, n) ==
  /\ pc[t] = "idle" /\ left[t] > 0
  /\ left' = [left EXCEPT ![t] = @ - 1]
  /\ cur' = [cur EXCEPT ![t] = n]
  /\ IF Kind[n] = "utc"
     THEN /\ results' = [results EXCEPT ![t] = Append(@, [name |-> n, ok |-> TRUE, impl |-> UTC])]
          /\ UNCHANGED pc
     ELSE /\ pc' = [pc EXCEPT ![t] = "check1"] /\ UNCHANGED results
  /\ UNCHANGED <<map, loadLock, fresh, inFactory, calls, facLog>>

\* first critical section: look the name up in the cache
Check1(t) ==
  /\ pc[t] = "check1"
  /\ IF map[cur[t]] # NoneV
     THEN Return(t, map[cur[t]])
     ELSE /\ pc' = [pc EXCEPT ![t] = IF SerializeLoads THEN "acqload" ELSE "construct"]
          /\ UNCHANGED results
  /\ UNCHANGED <<cur, left, map, loadLock, fresh, inFactory, calls, facLog>>

AcqLoad(t) ==
  /\ pc[t] = "acqload" /\ loadLock = "free"
  /\ loadLock' = t
  /\ pc' = [pc EXCEPT ![t] = "check2"]
  /\ UNCHANGED <<cur, left, map, fresh, inFactory, calls, facLog, results>>

\* re-check under the load mutex: somebody may have finished loading this name meanwhile
Check2(t) ==
  /\ pc[t] = "check2"
  /\ IF map[cur[t]] # NoneV
     THEN /\ Return(t, map[cur[t]]) /\ loadLock' = "free"
     ELSE /\ pc' = [pc EXCEPT ![t] = "construct"] /\ UNCHANGED <<results, loadLock>>
  /\ UNCHANGED <<cur, left, map, fresh, inFactory, calls, facLog>>

\* new Impl(name): fixed-offset names are built internally, everything else asks the factory
Construct(t) ==
  /\ pc[t] = "construct"
  /\ IF Kind[cur[t]] = "fixed"
     THEN /\ fresh' = [fresh EXCEPT ![t] = Impl(cur[t], t)]
          /\ pc' = [pc EXCEPT ![t] = "insert"]
          /\ UNCHANGED <<inFactory, calls, facLog>>
     ELSE /\ inFactory' = inFactory \cup {t}
          /\ calls' = [calls EXCEPT ![cur[t]] = @ + 1]
          /\ facLog' = facLog \cup {<<cur[t], t>>}
          /\ pc' = [pc EXCEPT ![t] = "infactory"]
          /\ UNCHANGED fresh
  /\ UNCHANGED <<cur, left, map, loadLock, results>>

FactoryReturn(t) ==
  /\ pc[t] = "infactory"
  /\ inFactory' = inFactory \ {t}
  /\ fresh' = [fresh EXCEPT ![t] = IF Kind[cur[t]] = "good" THEN Impl(cur[t], t) ELSE NullV]
  /\ pc' = [pc EXCEPT ![t] = "insert"]
  /\ UNCHANGED <<cur, left, map, loadLock, calls, facLog, results>>

\* second critical section: publish unless another thread won the race
Insert(t) ==
  /\ pc[t] = "insert"
  /\ LET n == cur[t]
         v == IF map[n] # NoneV THEN map[n] ELSE IF fresh[t] # NullV THEN fresh[t] ELSE UTC
     IN  /\ map' = [map EXCEPT ![n] = v]
         /\ Return(t, v)
  /\ loadLock' = IF loadLock = t THEN "free" ELSE loadLock
  /\ fresh' = [fresh EXCEPT ![t] = NullV]
  /\ UNCHANGED <<cur, left, inFactory, calls, facLog>>

Step(t) == \/ \E n \in Names : Call(t, n)
           \/ Check1(t) \/ AcqLoad(t) \/ Check2(t) \/ Construct(t) \/ FactoryReturn(t) \/ Insert(t)
Next == \E t \in Threads : Step(t)
Spec == Init /\ [][Next]_vars
FairSpec == Spec /\ \A t \in Threads : WF_vars(Check1(t) \/ AcqLoad(t) \/ Check2(t) \/ Construct(t) \/ FactoryReturn(t) \/ Insert(t))

(* ---- properties ---- *)
TypeOK == /\ \A t \in Threads : pc[t] \in {"idle", "check1", "acqload", "check2", "construct", "infactory", "insert"}
          /\ loadLock \in Threads \cup {"free"}
\* C20
FactoryOnce == \A n \in Names : calls[n] <= 1
FactorySerial == Cardinality(inFactory) <= 1
NoFactoryForFixed == \A n \in Names : Kind[n] \in {"fixed", "utc"} => calls[n] = 0
\* C13: all loads of one name agree, and every returned value is what a single thread would get
AllResults == UNION {{results[t][i] : i \in 1..Len(results[t])} : t \in Threads}
Agree == \A a, b \in AllResults : a.name = b.name => a.impl = b.impl
SeqEquiv == \A r \in AllResults :
              /\ r.ok = (Kind[r.name] \in {"good", "fixed", "utc"})
              /\ (r.impl = UTC) = (Kind[r.name] \in {"bad", "utc"})
              /\ r.impl # UTC => r.impl[1] = r.name
\* C14 (cache half): an entry never changes once made; a failed name stays failed
Sticky == [][\A n \in Names : map[n] # NoneV => map'[n] = map[n]]_vars
\* the load mutex is held exactly by a thread between AcqLoad and Insert/Check2-hit
LoadLockHeld == SerializeLoads => \A t \in Threads : (loadLock = t) = (pc[t] \in {"check2", "construct", "infactory", "insert"})
\* every call returns
AllReturn == \A t \in Threads : (pc[t] # "idle") ~> (pc[t] = "idle")
=============================================================================
