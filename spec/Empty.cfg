
