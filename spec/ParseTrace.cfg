SPECIFICATION Spec
CONSTANTS TMin <- RealTMin
 TMax <- RealTMax
 BigBangT <- RealBigBang
POSTCONDITION TraceConsumed
CHECK_DEADLOCK FALSE
