SPECIFICATION Spec
CONSTANTS
  TMin <- SmallTMin
  TMax <- SmallTMax
  BigBangT <- SmallBigBang
  Palettes = {1, 2, 3, 4, 5}
  Grid <- GridA
  MaxTrans = 2
  WinLo <- WinLoV
  WinHi = 16
  Export = FALSE
  Shard = 0
  NShards = 1
  BBNative <- BBSmall
INVARIANTS C02 C03 C06 C10 C11
CHECK_DEADLOCK FALSE
