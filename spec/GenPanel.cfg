CONSTANTS TMin <- RealTMin
 TMax <- RealTMax
 BigBangT <- RealBigBang
