-------------------------------- MODULE Split --------------------------------
(* den is a wide integer (up to 10^15), num a native one (1, 60, 3600).                           *)
(* Sub-second time points (C18): a time_point<duration<Rep, ratio<Num,Den>>> with count c is the   *)
(* instant c*Num/Den seconds.  Everything floors toward the past.                                  *)
EXTENDS Wide
\* whole second at or below the instant, and the non-negative remainder in ticks (units of Num/Den s)
SplitSeconds(c, num, den) ==
  IF den = W(1) THEN <<WMulSmall(c, num), WZero>>         \* whole seconds or coarser: no remainder
  ELSE WFloorDiv(c, den)                            \* num = 1
\* the remainder as femtoseconds, truncated
Femtos(sub, den) == IF den = W(1) THEN WZero ELSE WFloorDiv(WMul(sub, Pow10(15)), den)[1]
RepMax(bits) == CASE bits = 8 -> W(127) [] bits = 16 -> W(32767) [] bits = 32 -> <<1, 3647, 4748, 21>> [] bits = 64 -> I64Max
RepMin(bits) == CASE bits = 8 -> W(-128) [] bits = 16 -> W(-32768) [] bits = 32 -> <<-1, 3648, 4748, 21>> [] bits = 64 -> I64Min
\* (seconds, femtoseconds) -> count of the target representation; ok = it fits
JoinSeconds(sec, fs, bits, num, den) ==
  LET cnt == IF den = W(1) THEN WFloorDiv(sec, W(num))[1]
             ELSE WMul(sec, den) \oplus WFloorDiv(WMul(fs, den), Pow10(15))[1]
  IN  [ok |-> WLe(RepMin(bits), cnt) /\ WLe(cnt, RepMax(bits)), count |-> cnt]
\* the first n of the 15 fractional digits (truncation, not rounding); n = 0: none
FracDigits(fs, n) == IF n <= 15 THEN SubSeq(WDecPad(fs, 15), 1, n)
                     ELSE WDecPad(fs, 15) \o [i \in 1..(n - 15) |-> 48]      \* finer than femtoseconds: zeros on the right
RECURSIVE DropTrailingZeros(_)
DropTrailingZeros(d) == IF d # <<>> /\ d[Len(d)] = 48 THEN DropTrailingZeros(SubSeq(d, 1, Len(d) - 1)) ELSE d
\* %E*f: all significant digits, at least one
FracStar(fs) == LET d == DropTrailingZeros(WDecPad(fs, 15)) IN IF d = <<>> THEN <<48>> ELSE d
=============================================================================
