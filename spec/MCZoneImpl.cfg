SPECIFICATION Spec
CONSTANTS
  TMin <- SmallTMin
  TMax <- SmallTMax
  BigBangT <- SmallBigBang
  Sentinel32 <- SmallSentinel
  Palettes = {1, 3}
  Grid <- GridA
  MaxTrans = 2
  WinLo <- WinLoV
  WinHi = 16
  Export = FALSE
  Shard = 0
  NShards = 1
  BBNative <- BBSmall
INVARIANTS LoadsAllWellFormed ImplBreak ImplMake ImplTrans
CHECK_DEADLOCK FALSE
