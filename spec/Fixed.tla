------------------------------- MODULE Fixed -------------------------------
(* Fixed-offset zones: canonical names "Fixed/UTC<sign>hh:mm:ss", the names that denote a fixed  *)
(* offset, and the numeric abbreviation.  Strings are sequences of byte values.                  *)
EXTENDS Integers, Sequences
Str(s) == s          \* documentation only: byte sequences written as tuples
PrefixB == <<70, 105, 120, 101, 100, 47, 85, 84, 67>>        \* "Fixed/UTC"
UTCName == <<85, 84, 67>>                                     \* "UTC"
UTC0Name == <<85, 84, 67, 48>>                                \* "UTC0"
cPlusF == 43  cMinusF == 45  cColonF == 58
AbsF(x) == IF x < 0 THEN -x ELSE x
D2(v) == <<48 + ((v \div 10) % 10), 48 + (v % 10)>>
InRange(o) == o # 0 /\ AbsF(o) <= 86400
\* the offset a fixed_time_zone(o) really has
Effective(o) == IF InRange(o) THEN o ELSE 0
OffsetToName(o) ==
  IF ~InRange(o) THEN UTCName
  ELSE LET a == AbsF(o) IN
       PrefixB \o <<IF o < 0 THEN cMinusF ELSE cPlusF>> \o D2(a \div 3600) \o <<cColonF>>
         \o D2((a \div 60) % 60) \o <<cColonF>> \o D2(a % 60)
\* sign, hours, then minutes, then seconds, only as far as they are non-zero
OffsetToAbbr(o) ==
  IF ~InRange(o) THEN UTCName
  ELSE LET a == AbsF(o)  h == a \div 3600  m == (a \div 60) % 60  s == a % 60 IN
       <<IF o < 0 THEN cMinusF ELSE cPlusF>> \o D2(h)
         \o (IF m # 0 \/ s # 0 THEN D2(m) ELSE <<>>) \o (IF s # 0 THEN D2(s) ELSE <<>>)
IsDig(c) == c >= 48 /\ c <= 57
\* a string names a fixed offset only if it is "UTC", "UTC0", or has exactly the canonical shape
\* (two digits in every field) and spells a total of at most 24 hours
NameToOffset(n) ==
  IF n = UTCName \/ n = UTC0Name THEN [ok |-> TRUE, off |-> 0]
  ELSE IF /\ Len(n) = 18 /\ SubSeq(n, 1, 9) = PrefixB /\ n[10] \in {cPlusF, cMinusF}
          /\ n[13] = cColonF /\ n[16] = cColonF
          /\ \A i \in {11, 12, 14, 15, 17, 18} : IsDig(n[i])
       THEN LET v(i) == (n[i] - 48) * 10 + (n[i + 1] - 48)
                tot == v(11) * 3600 + v(14) * 60 + v(17) IN
            IF tot <= 86400 THEN [ok |-> TRUE, off |-> IF n[10] = cMinusF THEN -tot ELSE tot]
            ELSE [ok |-> FALSE, off |-> 0]
  ELSE [ok |-> FALSE, off |-> 0]
=============================================================================
