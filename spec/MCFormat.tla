------------------------------ MODULE MCFormat ------------------------------
(***************************************************************************)
(* Model check of the Format specification itself on every format string of *)
(* up to MaxTok tokens over an alphabet of literal characters, '%', each     *)
(* kind of internal specifier, the modifiers E O : *, digits and an unknown  *)
(* conversion letter:                                                       *)
(*  Partition   the items, written back, are the format string;              *)
(*  NoHidden    no stretch hides an unescaped '%' that starts an internal    *)
(*              specifier (re-scanning a stretch alone yields one stretch);  *)
(*  CutFree     with a compositional toy libc (each delegated conversion     *)
(*              renders independently of its neighbours) the output does not *)
(*              depend on how a stretch is cut into pieces - the lemma that  *)
(*              makes C08's obligation independent of the implementation's   *)
(*              segmentation;                                                *)
(*  Escapes     a format of only literals and "%%" renders as the text with  *)
(*              each pair collapsed.                                         *)
(***************************************************************************)
EXTENDS Format, TLC
CONSTANT MaxTok
Tokens == << <<120>>, <<32>>, <<37>>, <<37, 37>>, <<37, 89>>, <<37, 109>>, <<37, 122>>, <<37, 58, 122>>, <<37, 58, 58, 122>>, <<37, 69, 122>>,
            <<37, 69, 42, 83>>, <<37, 69, 42, 102>>, <<37, 69, 52, 89>>, <<37, 69, 84>>, <<37, 69, 51, 83>>, <<37, 69, 49, 50, 102>>,
            <<69>>, <<79>>, <<58>>, <<42>>, <<52>>, <<83>>, <<37, 97>>, <<37, 69, 99>>, <<37, 79, 100>>, <<37, 81>> >>
VARIABLES fmt, n
Init == fmt = <<>> /\ n = 0
Next == n < MaxTok /\ \E k \in 1..Len(Tokens) : fmt' = fmt \o Tokens[k] /\ n' = n + 1
Spec == Init /\ [][Next]_<<fmt, n>>

Partition ==
  LET it == Items(fmt)
      RECURSIVE Walk(_, _)
      Walk(k, pos) ==      \* pos: 1-based position in fmt where item k must start; returns the end position or -1
        IF k > Len(it) THEN pos
        ELSE IF it[k][1] = "txt" THEN
               (IF SubSeq(fmt, pos, pos + Len(it[k][2]) - 1) = it[k][2] /\ it[k][2] # <<>> THEN Walk(k + 1, pos + Len(it[k][2])) ELSE -1)
             ELSE (IF AtF(fmt, pos) = 37 /\ SpecAt(fmt, pos + 1) = it[k][2] THEN Walk(k + 1, it[k][2].nx) ELSE -1)
  IN  Walk(1, 1) = Len(fmt) + 1
NoHidden ==
  LET it == Items(fmt) IN
  \A k \in 1..Len(it) : it[k][1] = "txt" =>
     \* a stretch re-scanned on its own is a single stretch again, unless it ends in an odd '%' run whose
     \* meaning depended on what followed (then the following item is internal by construction)
     LET again == Items(it[k][2]) IN
     \/ again = <<<<"txt", it[k][2]>>>>
     \/ (k < Len(it) /\ it[k + 1][1] = "int")
\* toy libc: every '%' conversion renders as "<" its letters ">", text as itself, "%%" as "%"
RECURSIVE Toy(_, _)
Toy(x, i) == IF i > Len(x) THEN <<>>
             ELSE IF x[i] # 37 THEN <<x[i]>> \o Toy(x, i + 1)
             ELSE IF AtF(x, i + 1) = 37 THEN <<37>> \o Toy(x, i + 2)
             ELSE IF i = Len(x) THEN <<37>>
             ELSE <<60, x[i + 1], 62>> \o Toy(x, i + 2)
ToyEnv(it) == [k \in 1..Len(it) |-> <<it[k][2], Toy(it[k][2], 1)>>]
AL == [cs |-> <<W(2024), 2, 29, 13, 5, 9>>, off |-> -16200, abbr |-> <<88, 83, 84>>]
Escapes == (\A i \in 1..Len(fmt) : fmt[i] \in {120, 32, 37}) =>
             LET r == PlainText(fmt, 1) IN (r[1] => FormatOut(fmt, AL, W(5), W(77), <<>>) = <<TRUE, r[2]>>)
\* every delegated stretch starts being delegated at its first unpaired '%': text before it is literal for libc too
CutFree ==
  LET it == Items(fmt)
      txts == SelectSeq(it, LAMBDA x : x[1] = "txt")
      out == FormatOut(fmt, AL, W(5), W(77), ToyEnv(txts)) IN
  out[1] =>        \* all answers available (toy outputs always fit the buffer bound or the run is open)
    \A k \in 1..Len(txts) :
      LET x == txts[k][2]  p == FirstUnpaired(x, 1) IN
      p > 1 => Toy(x, 1) = PlainText(SubSeq(x, 1, p - 1), 1)[2] \o Toy(SubSeq(x, p, Len(x)), 1)
=============================================================================
