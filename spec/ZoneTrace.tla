----------------------------- MODULE ZoneTrace -----------------------------
(***************************************************************************)
(* Trace validation for harness/drv_zone.cc.  Every Load line carries the   *)
(* bytes the library was given; they are decoded here (TZif!Decode) and     *)
(* every later event of that zone is judged against the declarative Zone    *)
(* operators.  Properties: C01 (Break), C02 (Make), C03 (RT, RT2),          *)
(* C06 (Convert, with the order carried as state), C10 (ub = 0 everywhere,  *)
(* saturation), C11 (Next, Prev, chains), C14 (same operators, whatever the *)
(* call history), C12 (Load classes).                                      *)
(***************************************************************************)
EXTENDS Zone, Fixed, TraceCommon
RealTMin == <<-1, 5808, 5477, 368, 3372, 922>>
RealTMax == <<1, 5807, 5477, 368, 3372, 922>>
RealBigBang == <<-1, 3488, 342, 7523, 6460, 57>>

\* zones come from TZif bytes (Load) or are the library's built-in fixed-offset zones (LoadFixed)
Loads == SelectSeq(TraceLog, LAMBDA e : e.e \in {"Load", "LoadFixed"})
IsFixedLoad(k) == Loads[k].e = "LoadFixed"
FixedZone(off) == [n |-> 0, at |-> <<>>, ty |-> <<>>, types |-> <<TypeRec(off, FALSE, OffsetToAbbr(off))>>, dflt |-> 1,
                   real |-> <<>>, rule |-> [kind |-> "none"], rt |-> <<>>]
Dec == TLCEval([k \in 1..Len(Loads) |-> IF IsFixedLoad(k) THEN [ok |-> FALSE, why |-> "builtin"] ELSE Decode(Loads[k].bytes)])
ZT == TLCEval([k \in 1..Len(Loads) |-> IF IsFixedLoad(k) THEN FixedZone(Effective(Loads[k].off))
                                        ELSE IF StructOk(Dec[k]) THEN MkZone(Dec[k]) ELSE [n |-> -1]])
\* what is demanded of the loader for these bytes
Class == TLCEval([k \in 1..Len(Loads) |->
  IF IsFixedLoad(k) THEN "zic"
  ELSE IF Dec[k].ok /\ Dec[k].cut THEN "mustfail"             \* the file ends inside (or before) its footer: truncated
  ELSE IF ~StructOk(Dec[k]) THEN "other"
  ELSE IF Dec[k].leapcnt # 0 THEN "mustfail"
  ELSE IF ZT[k].rule.kind = "bad" THEN (IF Unconstrained(Dec[k].footer) THEN "other" ELSE "mustfail")
  ELSE IF TimesInZicRange(Dec[k]) /\ Dec[k].typecnt <= 254 /\ WellFormed(ZT[k]) THEN "zic"
  \* the literal reading of the premise (designation-only entries may stand next to offset changes), for the family the driver marks
  ELSE IF Loads[k].relaxed = 1 /\ TimesInZicRange(Dec[k]) /\ Dec[k].typecnt <= 254 /\ WellFormedD(ZT[k]) THEN "zicD"
  ELSE "other"])
ASSUME PrintT(<<"CLASSES", Class>>)
Oracle(z) == Class[z] \in {"zic", "zicD"}          \* the functional oracle applies (the property's premise holds)

VARIABLES l, bad, cv, chn
vars == <<l, bad, cv, chn>>
\* cv: last Convert event of the current run <<z, cs, t>>; chn: chain bookkeeping
NoCv == <<0, <<>>, <<>>>>
NoChain == [mode |-> "", fn |-> 0, ff |-> <<>>, fl |-> <<>>, bn |-> 0, bf |-> <<>>, bl |-> <<>>]

B01(b) == IF b THEN 1 ELSE 0

\* The shape of the table Load() builds (ZoneImpl!Table) is observable through description():
\* "#trans=<n> #types=<m> spec='<footer>'" - for zones without a DST rule the model predicts it.
TableLen(Z) == LET n1 == Z.n + (IF Z.n = 0 \/ ~(Z.at[1] \prec WZero) THEN 1 ELSE 0)
                   lastNeg == IF Z.n = 0 THEN TRUE ELSE Z.at[Z.n] \prec WZero
               IN  n1 + (IF lastNeg THEN 1 ELSE 0)
DescOf(Z, D) == <<35, 116, 114, 97, 110, 115, 61>> \o WDec(W(TableLen(Z))) \o <<32, 35, 116, 121, 112, 101, 115, 61>>
                \o WDec(W(D.typecnt)) \o <<32, 115, 112, 101, 99, 61, 39>> \o D.footer \o <<39>>
\* with a DST rule the table is extended by the rule instants of 404 rule years (the year before the local year of
\* the last recorded transition - whose last change may lie in that year's opening days -, that year and the 402 following)
\* that lie after that transition
ExtCount(Z) ==
  LET la == LastAt(Z)
      y0 == LocalCiv0(la, LastType(Z).off)[1] \ominus W(1)
      j0 == DaysFromCivil(y0, 1, 1)
      three == RuleYears(Z, j0, WMod(y0, 400), 0, 0, (Weekday(j0) + 1) % 7, 3)          \* the instants of years y0-1, y0, y0+1
  IN  2 * 404 - Cardinality({i \in 1..Len(three) : three[i].at \preceq la})
TransPrefix(n) == <<35, 116, 114, 97, 110, 115, 61>> \o WDec(W(n)) \o <<32>>
OkLoad(e) == /\ e.ub = 0
             /\ Class[e.z] \in {"zic", "zicD"} => e.ok = 1
             /\ Class[e.z] = "mustfail" => e.ok = 0
             /\ e.isutc = 1 - e.ok
             /\ (Class[e.z] = "zic" /\ ZT[e.z].rule.kind \in {"none", "std"}) => e.desc = DescOf(ZT[e.z], Dec[e.z])
             /\ (Class[e.z] = "zic" /\ ZT[e.z].rule.kind = "dst" /\ W(-1000000000) \prec LastAt(ZT[e.z])) =>
                  LET Z == ZT[e.z]
                      p == TransPrefix(Z.n + (IF Z.n = 0 \/ ~(Z.at[1] \prec WZero) THEN 1 ELSE 0) + ExtCount(Z)) IN
                  Len(e.desc) >= Len(p) /\ SubSeq(e.desc, 1, Len(p)) = p

OkBreak(e) == /\ e.ub = 0
              /\ Oracle(e.z) => LET b == Break(ZT[e.z], e.t) IN
                   /\ e.cs = b.cs /\ e.off = b.off /\ e.dst = B01(b.dst) /\ e.abbr = b.abbr

OkMake(e) == /\ e.ub = 0
             /\ Oracle(e.z) => LET m == Make(ZT[e.z], e.cs) IN
                  \/ m.kind = "ILLFORMED"
                  \/ /\ e.kind = m.kind /\ e.pre = m.pre /\ e.trans = m.trans /\ e.post = m.post
                     \* the header's inequalities (before clamping they are strict as stated)
                     /\ m.kind = "UNIQUE" => (e.pre = e.trans /\ e.trans = e.post)
                     /\ m.kind = "SKIPPED" => (e.trans \preceq e.pre /\ e.post \preceq e.trans)
                     /\ m.kind = "REPEATED" => (e.pre \preceq e.trans /\ e.trans \preceq e.post)

OkConvert(e) == /\ e.ub = 0
                /\ Oracle(e.z) => LET m == Make(ZT[e.z], e.cs) IN
                     m.kind = "ILLFORMED" \/ e.t = (IF m.kind = "SKIPPED" THEN m.trans ELSE m.pre)
                \* C06 as an action property over consecutive events of one zone
                /\ (Oracle(e.z) /\ cv[1] = e.z /\ Less(cv[2], e.cs)) => cv[3] \preceq e.t

Inside(t) == TMin \prec t /\ t \prec TMax
OkRT(e) == /\ e.ub = 0
           /\ Oracle(e.z) =>
                /\ e.kind # "SKIPPED"
                /\ e.kind = "UNIQUE" => e.pre = e.t
                /\ e.kind = "REPEATED" => (e.pre = e.t \/ e.post = e.t)
OkRT2(e) == /\ e.ub = 0
            /\ Oracle(e.z) =>
                 /\ (e.kind = "UNIQUE" /\ Inside(e.pre)) => e.cpre = e.cs
                 /\ (e.kind = "REPEATED" /\ Inside(e.pre) /\ Inside(e.post)) => (e.cpre = e.cs /\ e.cpost = e.cs)

\* the rule change (instant) whose civil description is <<from, to>>, or <<>> if there is none
RuleChangeShown(Z, from, to) ==
  LET C == RuleCtx(Z, to[1])
      v == {i \in RealRuleIdx(Z, C) : BreakC(Z, C, C.seq[i].at).cs = to /\ TrCivilC(Z, C, C.seq[i].at) = <<from, to>>} IN
  IF v = {} THEN <<>> ELSE C.seq[CHOOSE i \in v : TRUE].at
OkNext(e) ==
  /\ e.ub = 0
  /\ Oracle(e.z) => LET Z == ZT[e.z]  k == NextRecorded(Z, e.t) IN
       IF k # 0 THEN e.ok = 1 /\ <<e.from, e.to>> = TrCivil(Z, Z.at[k])
       ELSE IF Z.rule.kind # "dst" THEN e.ok = 0
       ELSE \* beyond the recorded data: either the enumeration has ended, or the earliest rule change
            /\ e.ok = 0 \/ <<e.from, e.to>> = TrCivil(Z, NextRuleChange(Z, e.t))
            \* ... and it has not ended within 399 years of the last recorded transition
            /\ e.t \prec (LastAt(Z) \oplus WMulSmall(W(145731), 86400)) => e.ok = 1
OkPrev(e) ==
  /\ e.ub = 0
  /\ Oracle(e.z) => LET Z == ZT[e.z] IN
       IF Z.rule.kind = "dst" /\ LastAt(Z) \prec e.t /\ RuleChangesBefore(Z, e.t) # {}
       THEN \* a rule-generated change lies before t: the answer must be a real rule change strictly
            \* before t (the latest one, unless the implementation's enumeration ended earlier)
            /\ e.ok = 1
            /\ LET c == RuleChangeShown(Z, e.from, e.to) IN c # <<>> /\ c \prec e.t
       ELSE LET k == PrevRecorded(Z, e.t) IN
            IF k = 0 THEN e.ok = 0 ELSE e.ok = 1 /\ <<e.from, e.to>> = TrCivil(Z, Z.at[k])
\* within 400 years of the last recorded transition the backward answer must be the latest change
PrevExactWhenNear(e) ==
  Oracle(e.z) => LET Z == ZT[e.z] IN
    (Z.rule.kind = "dst" /\ LastAt(Z) \prec e.t /\ RuleChangesBefore(Z, e.t) # {}
       /\ e.t \prec (LastAt(Z) \oplus WMulSmall(W(145731), 86400))) =>
      LET v == RuleChangesBefore(Z, e.t)  c == CHOOSE c \in v : \A d \in v : d \preceq c IN
      <<e.from, e.to>> = TrCivil(Z, c)

OkChainEnd(e) == Oracle(e.z) => (chn.fn = chn.bn /\ chn.ff = chn.bl /\ chn.fl = chn.bf)

Allowed(e) == CASE e.e = "Load"    -> OkLoad(e)
                [] e.e = "LoadFixed" -> e.ok = 1
                [] e.e = "Break"   -> OkBreak(e)
                [] e.e = "Make"    -> OkMake(e)
                [] e.e = "Convert" -> OkConvert(e)
                [] e.e = "RT"      -> OkRT(e)
                [] e.e = "RT2"     -> OkRT2(e)
                [] e.e = "Next"    -> OkNext(e)
                [] e.e = "Prev"    -> OkPrev(e) /\ PrevExactWhenNear(e)
                [] e.e = "Twin" -> e.same = 1
                [] e.e = "PanelUB" -> FALSE        \* an undefined operation while the driver prepared its panel
                [] e.e = "ChainStart" -> TRUE
                [] e.e = "ChainEnd" -> OkChainEnd(e)
                [] OTHER -> FALSE

NextChain(e) ==
  CASE e.e = "ChainStart" /\ e.dir = "fwd" -> [NoChain EXCEPT !.mode = "fwd"]
    [] e.e = "ChainStart" /\ e.dir = "bwd" -> [chn EXCEPT !.mode = "bwd"]
    [] e.e = "ChainEnd" -> NoChain
    [] e.e = "Next" /\ chn.mode = "fwd" /\ e.ok = 1 ->
         [chn EXCEPT !.fn = @ + 1, !.ff = IF chn.fn = 0 THEN e.to ELSE @, !.fl = e.to]
    [] e.e = "Prev" /\ chn.mode = "bwd" /\ e.ok = 1 ->
         [chn EXCEPT !.bn = @ + 1, !.bf = IF chn.bn = 0 THEN e.to ELSE @, !.bl = e.to]
    [] OTHER -> chn

Init == l = 1 /\ bad = 0 /\ cv = NoCv /\ chn = NoChain
Next == /\ l <= TraceLen
        /\ l' = l + 1
        /\ LET e == TraceLog[l]  ok == Allowed(e) IN
             /\ bad' = IF ok THEN bad ELSE bad + 1
             /\ IF ok THEN TRUE ELSE Reject(l, e.e)
             /\ cv' = IF e.e = "Convert" THEN <<e.z, e.cs, e.t>> ELSE IF e.e \in {"Load", "LoadFixed"} THEN NoCv ELSE cv
             /\ chn' = NextChain(e)
Spec == Init /\ [][Next]_vars
=============================================================================
