SPECIFICATION FairSpec
CONSTANTS
  Threads = {"t1", "t2", "t3"}
  Names <- MCNames
  Kind <- MCKind
  MaxCalls = 1
  SerializeLoads = TRUE
INVARIANTS TypeOK FactoryOnce FactorySerial NoFactoryForFixed Agree SeqEquiv LoadLockHeld
PROPERTIES Sticky AllReturn
CHECK_DEADLOCK FALSE
