-------------------------------- MODULE Zone --------------------------------
(***************************************************************************)
(* Declarative semantics of a time zone given by decoded TZif data:         *)
(* which local-time type is in force at an instant, instant -> civil        *)
(* (Break), civil -> instant by counting preimages (Make), convert, and the *)
(* enumeration of real changes (NextTr/PrevTr).  Nothing here is shaped     *)
(* like the implementation: no table extension, no sentinels, no hints.     *)
(***************************************************************************)
EXTENDS TZif, CivilTime, FiniteSets

\* The representable range of instants and the "big bang" sentinel instant are parameters so that
\* small worlds can place them inside the explored window; real traces use the int64 limits and -2^59.
CONSTANTS TMin, TMax, BigBangT
MaxAbsOff == 90000          \* no offset of a loadable zone exceeds 25 h in magnitude
TypeRec(off, dst, abbr) == [off |-> off, dst |-> dst, abbr |-> abbr]
Equiv(a, b) == a.off = b.off /\ a.dst = b.dst /\ a.abbr = b.abbr

\* ---- the zone value built from Decode's output (requires StructOk(D)) ----
RuleOf(D) ==
  IF ~D.hasfooter \/ D.footer = <<>> THEN [kind |-> "none"]
  ELSE LET p == ParseSpec(D.footer) IN
       IF ~p.ok \/ Unconstrained(D.footer) THEN [kind |-> "bad"]      \* a leading ':' is implementation-defined: left open
       ELSE IF p.hasdst /\ p.dst_abbr = <<>> THEN [kind |-> "odd"]     \* "<>" as the dst name: left open (DESIGN.md)
       ELSE IF ~p.hasdst THEN [kind |-> "std", stdT |-> TypeRec(p.std_off, FALSE, p.std_abbr)]
       ELSE [kind |-> IF AllYearDST(p) THEN "allyear" ELSE "dst",
             stdT |-> TypeRec(p.std_off, FALSE, p.std_abbr),
             dstT |-> TypeRec(p.dst_off, TRUE, p.dst_abbr),
             start |-> p.start, end |-> p.end]
\* seconds from January 1st 00:00 UTC of a year to the instant at which a rule fires, by
\* (leap year?, POSIX weekday of January 1st): <<DST starts, DST ends>>
RuleTab(rule) ==
  IF rule.kind # "dst" THEN <<>>
  ELSE [leap \in BOOLEAN |-> [wd \in 0..6 |->
         <<RuleDay(rule.start.date, leap, wd) * 86400 + rule.start.time - rule.stdT.off,
           RuleDay(rule.end.date, leap, wd) * 86400 + rule.end.time - rule.dstT.off>>]]
MkZone(D) ==
  LET rule == RuleOf(D)
      types == TLCEval([k \in 1..D.typecnt |-> TypeRec(D.types[k].off, D.types[k].dst, CStr(D.chars, D.types[k].ai + 1))])
      ty == TLCEval([k \in 1..D.timecnt |-> D.tidx[k] + 1])
      dflt == DefaultType(D) + 1
      before(k) == IF k = 1 THEN types[dflt] ELSE types[ty[k - 1]]
      \* a recorded transition is a real change unless it alters nothing or is a "big bang" sentinel
      real == TLCEval([k \in 1..D.timecnt |-> ~Equiv(before(k), types[ty[k]]) /\ BigBangT \prec D.times[k]])
  IN
  [n     |-> D.timecnt,
   at    |-> D.times,
   ty    |-> ty,
   types |-> types,
   dflt  |-> dflt,
   real  |-> real,
   rule  |-> rule,
   rt    |-> TLCEval(RuleTab(rule))]

LastAt(Z) == IF Z.n = 0 THEN BigBangT ELSE Z.at[Z.n]       \* rules apply strictly after this instant
LastType(Z) == IF Z.n = 0 THEN Z.types[Z.dflt] ELSE Z.types[Z.ty[Z.n]]

\* number of recorded transitions at or before t
RECURSIVE BS(_, _, _, _)
BS(at, t, lo, hi) == IF lo = hi THEN lo
                     ELSE LET mid == (lo + hi + 1) \div 2 IN
                          IF at[mid] \preceq t THEN BS(at, t, mid, hi) ELSE BS(at, t, lo, mid - 1)
IdxLE(Z, t) == BS(Z.at, t, 0, Z.n)

UtcYear(t) == CivilFromDays(WDiv(t, 86400))[1]
\* The rule instants of the six years y-3 .. y+2 that lie after the recorded data, in time
\* order, each with the type it introduces.  For any instant t (or civil second) whose UTC year is
\* within one of y, the latest rule instant at or before t is among them (a rule fires within 8
\* days of its own year).  `edge` says that the first element is the earliest of the twelve, i.e.
\* its predecessor lies outside the context.  (Time order across years is part of WellFormed.)
RECURSIVE RuleYears(_, _, _, _, _, _, _)
RuleYears(Z, j0, ym, i, cum, wd, stop) ==      \* years number i .. stop-1 counted from the year whose Jan 1 is day j0
  IF i = stop THEN <<>>
  ELSE LET leap == IsLeapIdx((ym + i) % 400)
           len  == IF leap THEN 366 ELSE 365
           base == WMulSmall(j0 \oplus W(cum), 86400)
           o    == Z.rt[leap][wd]
           st   == [at |-> base \oplus W(o[1]), T |-> Z.rule.dstT]
           en   == [at |-> base \oplus W(o[2]), T |-> Z.rule.stdT]
       IN  (IF o[1] <= o[2] THEN <<st, en>> ELSE <<en, st>>)
             \o RuleYears(Z, j0, ym, i + 1, cum + len, (wd + len) % 7, stop)
\* the instants of two consecutive rule years starting with the year whose January 1st is day j0
RuleYears2(Z, j0, ym, wd) ==
  RuleYears(Z, j0, ym, 0, 0, wd, 2)
LocalCiv0(t, off) == FromSeconds(t \oplus W(off))
RECURSIVE CountLE(_, _, _)          \* number of leading elements of the sorted sequence with at <= t
CountLE(sq, t, i) == IF i > Len(sq) \/ t \prec sq[i].at THEN i - 1 ELSE CountLE(sq, t, i + 1)
NoCtx == [seq |-> <<>>, edge |-> FALSE]
RuleCtx(Z, y) ==
  IF Z.rule.kind # "dst" THEN NoCtx
  ELSE LET y0 == y \ominus W(3)
           j0 == DaysFromCivil(y0, 1, 1)
           all == RuleYears(Z, j0, WMod(y0, 400), 0, 0, (Weekday(j0) + 1) % 7, 6)
           k == CountLE(all, LastAt(Z), 1)
       IN  [seq |-> SubSeq(all, k + 1, Len(all)), edge |-> k = 0]

\* the type in force at t, given the rule context C of a year near t
TypeAtC(Z, C, t) ==
  LET i == CountLE(C.seq, t, 1) IN
  IF i > 0 THEN C.seq[i].T
  ELSE LET k == IdxLE(Z, t) IN IF k = 0 THEN Z.types[Z.dflt] ELSE Z.types[Z.ty[k]]
NeedsCtx(Z, t) == Z.rule.kind = "dst" /\ LastAt(Z) \prec t
CtxFor(Z, t) == IF NeedsCtx(Z, t) THEN RuleCtx(Z, UtcYear(t)) ELSE NoCtx
TypeAt(Z, t) == TypeAtC(Z, CtxFor(Z, t), t)
OffAt(Z, t) == TypeAt(Z, t).off

\* ---- C01: instant -> civil ----
BreakC(Z, C, t) == LET T == TypeAtC(Z, C, t) IN
  [cs |-> FromSeconds(t \oplus W(T.off)), off |-> T.off, dst |-> T.dst, abbr |-> T.abbr]
Break(Z, t) == BreakC(Z, CtxFor(Z, t), t)

\* ---- C02: civil -> instant ----
Clamp(t) == IF t \prec TMin THEN TMin ELSE IF TMax \prec t THEN TMax ELSE t
Make(Z, cs) ==
  LET s    == SecondsOf(cs)
      C    == CtxFor(Z, s \oplus W(MaxAbsOff))
      lo   == IdxLE(Z, s \ominus W(MaxAbsOff + 1))
      hi   == IdxLE(Z, s \oplus W(MaxAbsOff))
      \* the offset changes (instants) that could be responsible for the civil second s
      ch   == {Z.at[k] : k \in (lo + 1)..hi} \cup
              {C.seq[i].at : i \in {i \in 1..Len(C.seq) : (s \ominus W(MaxAbsOff + 1)) \prec C.seq[i].at
                                                             /\ C.seq[i].at \preceq (s \oplus W(MaxAbsOff))}}
      Off(t) == TypeAtC(Z, C, t).off
      jumps == {[at |-> c, ob |-> Off(c \ominus W(1)), oa |-> Off(c)] : c \in ch}
      offs == {Off(s \ominus W(MaxAbsOff + 1))} \cup {j.oa : j \in jumps}
      \* the instants that display s: t = s - o with o the offset in force at t
      P    == {o \in offs : Off(s \ominus W(o)) = o}
      \* changes whose jump covers s: [c + before, c + after) skipped, [c + after, c + before) repeated
      resp == {j \in jumps : \/ ((j.at \oplus W(j.ob)) \preceq s /\ s \prec (j.at \oplus W(j.oa)))
                             \/ ((j.at \oplus W(j.oa)) \preceq s /\ s \prec (j.at \oplus W(j.ob)))}
  IN
  IF Cardinality(P) = 1 /\ resp = {} THEN
    LET t == s \ominus W(CHOOSE o \in P : TRUE) IN [kind |-> "UNIQUE", pre |-> Clamp(t), trans |-> Clamp(t), post |-> Clamp(t), rawpre |-> t]
  ELSE IF Cardinality(resp) = 1 /\ Cardinality(P) \in {0, 2} THEN
    LET j == CHOOSE j \in resp : TRUE IN
    [kind |-> IF Cardinality(P) = 0 THEN "SKIPPED" ELSE "REPEATED",
     pre |-> Clamp(s \ominus W(j.ob)), trans |-> Clamp(j.at), post |-> Clamp(s \ominus W(j.oa)), rawpre |-> s \ominus W(j.ob)]
  ELSE [kind |-> "ILLFORMED"]          \* crowded / crossing changes: outside the property's premise
Convert(Z, cs) == LET m == Make(Z, cs) IN IF m.kind = "SKIPPED" THEN m.trans ELSE m.pre

\* ---- C11: the real changes ----
TypeBefore(Z, k) == IF k = 1 THEN Z.types[Z.dflt] ELSE Z.types[Z.ty[k - 1]]
IsRealChange(Z, k) == Z.real[k]
\* civil description <<from, to>> of a change at instant c
TrCivilC(Z, C, c) == <<Add(TagSecond, BreakC(Z, C, c \ominus W(1)).cs, W(1)), BreakC(Z, C, c).cs>>
TrCivil(Z, c) == TrCivilC(Z, CtxFor(Z, c), c)
RECURSIVE NextRealFrom(_, _)
NextRealFrom(Z, k) == IF k > Z.n THEN 0 ELSE IF IsRealChange(Z, k) THEN k ELSE NextRealFrom(Z, k + 1)
RECURSIVE PrevRealFrom(_, _)
PrevRealFrom(Z, k) == IF k < 1 THEN 0 ELSE IF IsRealChange(Z, k) THEN k ELSE PrevRealFrom(Z, k - 1)
NextRecorded(Z, t) == NextRealFrom(Z, IdxLE(Z, t) + 1)              \* 0 = none
PrevRecorded(Z, t) == PrevRealFrom(Z, IdxLE(Z, t \ominus W(1)))     \* latest strictly before t
\* rule-generated changes (only with a dst rule).  A rule instant is a real change unless it
\* introduces the type already in force (possible for the first one after the recorded data).
IsRealRule(Z, C, i) ==
  /\ ~(i = 1 /\ C.edge)
  /\ ~Equiv(IF i > 1 THEN C.seq[i - 1].T ELSE TypeAtC(Z, NoCtx, C.seq[i].at \ominus W(1)), C.seq[i].T)
RealRuleIdx(Z, C) == {i \in 1..Len(C.seq) : IsRealRule(Z, C, i)}
NextRuleChange(Z, t) ==      \* earliest real rule change after max(t, LastAt)
  LET b == WMax(t, LastAt(Z))
      C == RuleCtx(Z, UtcYear(b))
      v == {i \in RealRuleIdx(Z, C) : b \prec C.seq[i].at}
  IN  C.seq[CHOOSE i \in v : \A j \in v : i <= j].at
RuleChangesBefore(Z, t) ==   \* the real rule changes of the years around t that lie before t
  LET C == RuleCtx(Z, UtcYear(t)) IN {C.seq[i].at : i \in {i \in RealRuleIdx(Z, C) : C.seq[i].at \prec t}}

\* ---- the premise of C02/C03/C06: changes farther apart than the sum of their sizes ----
Abs(x) == IF x < 0 THEN -x ELSE x
Jump(Z, k) == Z.types[Z.ty[k]].off - TypeBefore(Z, k).off
RecordedWellFormed(Z) ==
  \A k \in 2..Z.n : (W(Abs(Jump(Z, k - 1)) + Abs(Jump(Z, k)))) \prec (Z.at[k] \ominus Z.at[k - 1])
\* the rule part: instants relative to January 1st depend only on (leap, weekday of Jan 1): 14 cases
RuleWellFormed(Z) ==
  Z.rule.kind # "dst" \/
  LET r == Z.rule
      j == Abs(r.dstT.off - r.stdT.off)
      Off(rule, leap, wd, o) == RuleDay(rule.date, leap, wd) * 86400 + rule.time - o
  IN  /\ j < 86400
      /\ \A leap \in BOOLEAN, wd \in 0..6 :
           LET s == Off(r.start, leap, wd, r.stdT.off)
               e == Off(r.end, leap, wd, r.dstT.off)
               ylen == (IF leap THEN 366 ELSE 365) * 86400
               wd2 == (wd + (IF leap THEN 366 ELSE 365)) % 7
           IN  /\ Abs(s - e) > 2 * j
               /\ \A leap2 \in BOOLEAN :        \* the seam to the following year
                    LET s2 == ylen + Off(r.start, leap2, wd2, r.stdT.off)
                        e2 == ylen + Off(r.end, leap2, wd2, r.dstT.off)
                        hi == IF s > e THEN s ELSE e
                        lo2 == IF s2 < e2 THEN s2 ELSE e2
                    IN  lo2 - hi > 2 * j
SeamWellFormed(Z) ==
  Z.rule.kind # "dst" \/
  LET la == LastAt(Z)
      C == RuleCtx(Z, UtcYear(la))
      v == {i \in 1..Len(C.seq) : la \prec C.seq[i].at}
      i1 == CHOOSE i \in v : \A j \in v : i <= j                      \* the first rule instant after the data
      jumpIn == IF Z.n = 0 THEN 0 ELSE Abs(Jump(Z, Z.n))
      jump1 == Abs(C.seq[i1].T.off - LastType(Z).off)                 \* the jump there starts from the last recorded type
      jump2 == Abs(Z.rule.dstT.off - Z.rule.stdT.off)
  IN  /\ W(jumpIn + jump1) \prec (C.seq[i1].at \ominus la)
      /\ (i1 + 1 <= Len(C.seq)) => W(jump1 + jump2) \prec (C.seq[i1 + 1].at \ominus C.seq[i1].at)
\* the footer agrees with the recorded data (what "consistent" means for std-only / all-year footers)
FooterConsistent(Z) ==
  CASE Z.rule.kind = "none" -> TRUE
    [] Z.rule.kind = "bad" -> FALSE
    [] Z.rule.kind = "odd" -> FALSE
    [] Z.rule.kind = "std" -> Equiv(LastType(Z), Z.rule.stdT)
    [] Z.rule.kind = "allyear" -> Equiv(LastType(Z), Z.rule.dstT)
    [] Z.rule.kind = "dst" -> TRUE
WellFormed(Z) == FooterConsistent(Z) /\ RecordedWellFormed(Z) /\ RuleWellFormed(Z) /\ SeamWellFormed(Z)
\* The same premise read literally: only changes OF THE OFFSET need to be farther apart than the sum of their sizes; entries that
\* change the designation or the DST flag alone may stand anywhere between them (no civil second is then shown by more than two
\* instants, and Make / Break above do not care where such entries stand).  Used for a dedicated family of recorded-data-only zones.
NZJumps(Z) == {k \in 1..Z.n : Jump(Z, k) # 0}
PrevNZ(Z, k) == LET s == {j \in NZJumps(Z) : j < k} IN IF s = {} THEN 0 ELSE CHOOSE j \in s : \A i \in s : i <= j
RecordedWellFormedD(Z) ==
  \A k \in NZJumps(Z) : LET p == PrevNZ(Z, k) IN
     p = 0 \/ (W(Abs(Jump(Z, p)) + Abs(Jump(Z, k)))) \prec (Z.at[k] \ominus Z.at[p])
WellFormedD(Z) == Z.rule.kind \in {"none", "std"} /\ FooterConsistent(Z) /\ RecordedWellFormedD(Z)
=============================================================================
