------------------------------ MODULE MCFixed ------------------------------
(* Exhaustive model check of Fixed on every offset in -90000..90000 (C15 on the specification). *)
EXTENDS Fixed
VARIABLE o
Init == o \in -90000..90000
Next == UNCHANGED o
Spec == Init /\ [][Next]_o
RoundTrip == LET r == NameToOffset(OffsetToName(o)) IN r.ok /\ r.off = Effective(o)
Shape == /\ InRange(o) => Len(OffsetToName(o)) = 18
         /\ LET a == OffsetToAbbr(o) IN InRange(o) => (Len(a) \in {3, 5, 7} /\ a[1] = (IF o < 0 THEN 45 ELSE 43))
         /\ (InRange(o) /\ o % 3600 = 0) => Len(OffsetToAbbr(o)) = 3
         /\ (InRange(o) /\ o % 60 = 0 /\ o % 3600 # 0) => Len(OffsetToAbbr(o)) = 5
         /\ (InRange(o) /\ o % 60 # 0) => Len(OffsetToAbbr(o)) = 7
         /\ ~InRange(o) => (OffsetToName(o) = UTCName /\ OffsetToAbbr(o) = UTCName)
=============================================================================
