SPECIFICATION Spec
CONSTANT MaxTok = 3
INVARIANTS Partition NoHidden Escapes CutFree
CHECK_DEADLOCK FALSE
