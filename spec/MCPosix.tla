------------------------------- MODULE MCPosix -------------------------------
(***************************************************************************)
(* The rule-evaluation half of PosixTZ checked against first principles:    *)
(* every date form in every year shape (leap?, weekday of January 1st), and *)
(* the instant RuleInstant places the rule at, read back through the        *)
(* (separately model-checked) Gregorian closed forms, in a spread of years. *)
(* The oracle of C01/C02/C11 for rule-generated transitions rests on these. *)
(***************************************************************************)
EXTENDS PosixTZ, FiniteSets, TLC
VARIABLES leap, wd, ph
vars == <<leap, wd, ph>>
Init == leap = FALSE /\ wd = 0 /\ ph = 0
Next == ph = 0 /\ ph' = 1 /\ leap' \in BOOLEAN /\ wd' \in 0..6
Spec == Init /\ [][Next]_vars

YearLen == IF leap THEN 366 ELSE 365
\* first principles: the days (0-based day of year) of month m, and their POSIX weekdays
MonthLen(m) == IF m = 2 THEN (IF leap THEN 29 ELSE 28) ELSE IF m \in {4, 6, 9, 11} THEN 30 ELSE 31
RECURSIVE DaysBefore(_)
DaysBefore(m) == IF m = 1 THEN 0 ELSE DaysBefore(m - 1) + MonthLen(m - 1)
DaysOf(m) == DaysBefore(m)..(DaysBefore(m) + MonthLen(m) - 1)
WdOf(yd) == (wd + yd) % 7
Matching(m, d) == {yd \in DaysOf(m) : WdOf(yd) = d}
\* the w-th (1..4) such weekday of the month, 5 = the last one
Nth(m, w, d) == LET S == Matching(m, d) IN
  IF w = 5 THEN CHOOSE x \in S : \A y \in S : y <= x
  ELSE CHOOSE x \in S : Cardinality({y \in S : y < x}) = w - 1
MLaw == ph = 1 =>
  \A m \in 1..12, w \in 1..5, d \in 0..6 :
    RuleDay([fmt |-> FmtM, a |-> m, b |-> w, c |-> d], leap, wd) = Nth(m, w, d)
\* month and day of a 0-based day of the year
MD(yd) == CHOOSE md \in (1..12) \X (1..31) : md[2] <= MonthLen(md[1]) /\ DaysBefore(md[1]) + md[2] - 1 = yd
\* Jn: the n-th day of a 365-day year - the same month and day in every year, never February 29th
JDate(n) == LET t == <<0, 31, 59, 90, 120, 151, 181, 212, 243, 273, 304, 334>>
                m == CHOOSE k \in 1..12 : t[k] < n /\ (k = 12 \/ n <= t[k + 1]) IN <<m, n - t[m]>>
JLaw == ph = 1 =>
  \A n \in 1..365 : LET yd == RuleDay([fmt |-> FmtJ, a |-> n, b |-> 0, c |-> 0], leap, wd) IN
    /\ yd \in 0..(YearLen - 1)
    /\ MD(yd) = JDate(n)
    /\ MD(yd) # <<2, 29>>
\* n: zero-based, February 29th counted
NLaw == ph = 1 =>
  \A n \in 0..365 : RuleDay([fmt |-> FmtN, a |-> n, b |-> 0, c |-> 0], leap, wd) = n
\* the instant: midnight UTC of the rule day + time - offset, in concrete years of this shape; read back with
\* the Gregorian closed forms it must be the expected month, weekday and ordinal
Years == {y \in {1583, 1900, 1970, 1999, 2000, 2007, 2024, 2037, 2038, 2400, 9999, 123456, -1, -400, -2023, 0} \cup 2100..2130 :
            IsLeap(W(y)) = leap /\ Jan1Weekday(W(y)) = wd}
InstantLaw == ph = 1 =>
  \A y \in Years : \A m \in {1, 2, 3, 10, 12}, w \in {1, 2, 5}, d \in {0, 3, 6} :
    \A tm \in {0, 7200, -3600, 93600} : \A off \in {0, -18000, 34200} :
      LET r == [date |-> [fmt |-> FmtM, a |-> m, b |-> w, c |-> d], time |-> tm]
          t == RuleInstant(r, W(y), off)
          \* shift back to the local midnight the rule day starts with
          day0 == WDiv((t \oplus W(off)) \ominus W(tm), 86400)
          c == CivilFromDays(day0) IN
      /\ WMod((t \oplus W(off)) \ominus W(tm), 86400) = 0
      /\ c[1] = W(y) /\ c[2] = m
      /\ (Weekday(day0) + 1) % 7 = d
      /\ IF w = 5 THEN c[3] + 7 > MonthLen(m) ELSE (c[3] - 1) \div 7 = w - 1
=============================================================================
