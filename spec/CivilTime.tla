----------------------------- MODULE CivilTime -----------------------------
(***************************************************************************)
(* cctz civil time: six alignments (tag 0 = second ... 5 = year) of the     *)
(* fields <<year (wide), month, day, hour, minute, second>>.                *)
(* Everything is defined through day numbers and exact (wide) arithmetic:   *)
(* there is no notion of overflow in the specification; the Domain           *)
(* predicates say for which 64-bit arguments the C++ must be exact.         *)
(***************************************************************************)
EXTENDS Gregorian

TagSecond == 0  TagMinute == 1  TagHour == 2  TagDay == 3  TagMonth == 4  TagYear == 5

ValidFields(f) == /\ ValidDate(f[1], f[2], f[3])
                  /\ f[4] \in 0..23 /\ f[5] \in 0..59 /\ f[6] \in 0..59

Align(tag, f) == <<f[1],
                   IF tag >= TagYear   THEN 1 ELSE f[2],
                   IF tag >= TagMonth  THEN 1 ELSE f[3],
                   IF tag >= TagDay    THEN 0 ELSE f[4],
                   IF tag >= TagHour   THEN 0 ELSE f[5],
                   IF tag >= TagMinute THEN 0 ELSE f[6]>>
IsAligned(tag, f) == Align(tag, f) = f

\* Normalisation of six arbitrary (wide) integers: seconds carry into minutes, minutes into
\* hours, hours into days; months are carried into the year first and days are then counted
\* from the first of that month.
Normalize(y, m, d, hh, mm, ss) ==
  LET s   == WDivMod(ss, 60)
      mi  == WDivMod(mm \oplus s[1], 60)
      h   == WDivMod(hh \oplus mi[1], 24)
      mo  == WDivMod(m \ominus W(1), 12)
      y1  == y \oplus mo[1]
      z   == (DaysFromCivil(y1, mo[2] + 1, 1) \oplus (d \ominus W(1))) \oplus h[1]
      c   == CivilFromDays(z)
  IN  [f |-> <<c[1], c[2], c[3], h[2], mi[2], s[2]>>, y1 |-> y1]

Ctor(tag, a) == Align(tag, Normalize(a[1], a[2], a[3], a[4], a[5], a[6]).f)
\* exactness is demanded when the normalised year and the year after the month carry alone fit
InDomainCtor(a) == LET n == Normalize(a[1], a[2], a[3], a[4], a[5], a[6]) IN InI64(n.y1) /\ InI64(n.f[1])

\* moving an aligned value by n units of its alignment
Add(tag, f, n) ==
  LET g == [i \in 1..6 |-> IF i = 1 THEN f[1] ELSE W(f[i])]
      a == [g EXCEPT ![6 - tag] = g[6 - tag] \oplus n]
  IN  Align(tag, Normalize(a[1], a[2], a[3], a[4], a[5], a[6]).f)
InDomainAdd(tag, f, n) == InI64(Add(tag, f, n)[1])

\* seconds since 1970-01-01T00:00:00 (wide) and the unit count of an aligned value
SecondsOf(f) == WMulSmall(DaysFromCivil(f[1], f[2], f[3]), 86400) \oplus W(f[4] * 3600 + f[5] * 60 + f[6])
FromSeconds(t) == LET qr == WDivMod(t, 86400)  c == CivilFromDays(qr[1])
                  IN  <<c[1], c[2], c[3], qr[2] \div 3600, (qr[2] \div 60) % 60, qr[2] % 60>>
UnitsOf(tag, f) ==
  CASE tag = TagSecond -> SecondsOf(f)
    [] tag = TagMinute -> WDiv(SecondsOf(f), 60)
    [] tag = TagHour   -> WDiv(SecondsOf(f), 3600)
    [] tag = TagDay    -> DaysFromCivil(f[1], f[2], f[3])
    [] tag = TagMonth  -> WMulSmall(f[1], 12) \oplus W(f[2] - 1)
    [] tag = TagYear   -> f[1]
Diff(tag, a, b) == UnitsOf(tag, a) \ominus UnitsOf(tag, b)
InDomainDiff(tag, a, b) == InI64(Diff(tag, a, b))

\* total order on the six fields
Cmp(a, b) == LET cy == WCmp(a[1], b[1]) IN
  IF cy # 0 THEN cy
  ELSE LET RECURSIVE C(_)
           C(i) == IF i > 6 THEN 0 ELSE IF a[i] < b[i] THEN -1 ELSE IF a[i] > b[i] THEN 1 ELSE C(i + 1)
       IN  C(2)
Less(a, b) == Cmp(a, b) < 0

\* weekdays: 0 = Monday ... 6 = Sunday
WeekdayOf(f) == Weekday(DaysFromCivil(f[1], f[2], f[3]))
YearDayOf(f) == YearDay(f[1], f[2], f[3])
\* nearest day strictly after / before f (a civil day) falling on weekday wd: 1..7 days away
NextWeekdayDelta(f, wd) == LET k == (wd - WeekdayOf(f) + 7) % 7 IN IF k = 0 THEN 7 ELSE k
PrevWeekdayDelta(f, wd) == LET k == (WeekdayOf(f) - wd + 7) % 7 IN IF k = 0 THEN 7 ELSE k
NextWeekday(f, wd) == Add(TagDay, f, W(NextWeekdayDelta(f, wd)))
PrevWeekday(f, wd) == Add(TagDay, f, W(-PrevWeekdayDelta(f, wd)))

CivilMax == <<I64Max, 12, 31, 23, 59, 59>>
CivilMin == <<I64Min, 1, 1, 0, 0, 0>>
=============================================================================
