SPECIFICATION TSpec
CONSTANTS
  Threads <- TThreads
  Names <- TNames
  Kind <- TKind
  MaxCalls = 100000
  SerializeLoads = TRUE
POSTCONDITION TraceConsumed
CHECK_DEADLOCK FALSE
