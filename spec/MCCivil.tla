------------------------------ MODULE MCCivil ------------------------------
(***************************************************************************)
(* Model check of Gregorian/CivilTime on the whole 146097-day cycle.        *)
(* The cycle is cut into segments of SegLen days explored in parallel; in   *)
(* each, a day counter z and a date (y,m,d) advanced by the first-principles*)
(* NextDay walk side by side.  Invariants tie the closed forms and the      *)
(* civil-time operators to that walk (C04, C05, C17 on the specification).  *)
(***************************************************************************)
EXTENDS CivilTime, TLC
CONSTANTS SegLen, SegStep, Era0   \* Era0: year of the cycle start (native, multiple of 400);
                                  \* every SegStep-th segment is explored (1 = the whole cycle)
VARIABLES z, ymd, left
vars == <<z, ymd, left>>
Start == WInt(DaysFromCivil(W(Era0), 1, 1))
NSeg == (146097 + SegLen - 1) \div SegLen
Init == \E s \in {x \in 0..(NSeg - 1) : x % SegStep = 0} :
          /\ z = Start + s * SegLen
          /\ ymd = CivilFromDays(W(Start + s * SegLen))
          /\ left = SegLen
Next == /\ left > 0 /\ left' = left - 1 /\ z' = z + 1
        /\ ymd' = NextDay(ymd[1], ymd[2], ymd[3])
Spec == Init /\ [][Next]_vars

F == <<ymd[1], ymd[2], ymd[3], 0, 0, 0>>          \* the civil day as fields
Ns == {-800, -366, -365, -32, -31, -29, -28, -1, 0, 1, 28, 29, 30, 31, 59, 365, 366, 800}

\* closed forms = stepping (so CivilFromDays/DaysFromCivil are mutually inverse bijections on the cycle)
ClosedForms == /\ CivilFromDays(W(z)) = ymd
               /\ DaysFromCivil(ymd[1], ymd[2], ymd[3]) = W(z)
               /\ ValidDate(ymd[1], ymd[2], ymd[3])
\* the segment that starts where this one ends starts from the same date (the walk is one chain)
Chained == left = 0 => CivilFromDays(W(z)) = ymd
\* C17: weekday advances by one per day from Thursday 1970-01-01; yearday is the ordinal in the year
Weekdays == /\ Weekday(W(z)) = (z + 3) % 7 \/ z < -3
            /\ Weekday(W(z + 1)) = (Weekday(W(z)) + 1) % 7
            /\ YearDayOf(F) \in 1..DaysInYear(ymd[1])
            /\ (ymd[2] = 1 /\ ymd[3] = 1) => YearDayOf(F) = 1
            /\ (ymd[2] = 12 /\ ymd[3] = 31) => YearDayOf(F) = DaysInYear(ymd[1])
            /\ LET n == NextDay(ymd[1], ymd[2], ymd[3]) IN
                 n[1] = ymd[1] => YearDay(n[1], n[2], n[3]) = YearDayOf(F) + 1
            /\ \A wd \in 0..6 :
                 /\ NextWeekdayDelta(F, wd) \in 1..7 /\ PrevWeekdayDelta(F, wd) \in 1..7
                 /\ WeekdayOf(NextWeekday(F, wd)) = wd /\ WeekdayOf(PrevWeekday(F, wd)) = wd
                 /\ Diff(TagDay, NextWeekday(F, wd), F) = W(NextWeekdayDelta(F, wd))
                 /\ Diff(TagDay, F, PrevWeekday(F, wd)) = W(PrevWeekdayDelta(F, wd))
\* C04: construction from normal fields is the identity; one past the end of a field carries like the walk
Construct ==
  LET g == <<ymd[1], ymd[2], ymd[3], 23, 59, 59>> IN
  /\ Ctor(0, <<g[1], W(g[2]), W(g[3]), W(23), W(59), W(59)>>) = g
  /\ ValidFields(g)
  /\ LET n == NextDay(ymd[1], ymd[2], ymd[3]) IN
       /\ Ctor(0, <<g[1], W(g[2]), W(g[3]), W(23), W(59), W(60)>>) = <<n[1], n[2], n[3], 0, 0, 0>>
       /\ Ctor(0, <<g[1], W(g[2]), W(g[3] + 1), W(0), W(0), W(0)>>) = <<n[1], n[2], n[3], 0, 0, 0>>
       /\ Ctor(0, <<n[1], W(n[2]), W(n[3]), W(0), W(0), W(-1)>>) = g
       /\ Ctor(0, <<n[1], W(n[2]), W(n[3] - 1), W(23), W(59), W(59)>>) = g
  /\ \A k \in {-25, -13, -12, -1, 0, 1, 11, 12, 13, 25} :       \* months carried into the year first
       LET c == Ctor(3, <<ymd[1], W(ymd[2] + k), W(1), W(0), W(0), W(0)>>)
           mi == ymd[2] - 1 + k
       IN  /\ c[2] = (mi % 12) + 1 /\ c[3] = 1
           /\ c[1] = ymd[1] \oplus W(IF mi >= 0 THEN mi \div 12 ELSE -((-mi + 11) \div 12))
  /\ \A tag \in 0..5 : LET a == Align(tag, g) IN IsAligned(tag, a) /\ ValidFields(a) /\ ~Less(g, a)
                          /\ \A i \in 1..(5 - tag) : a[i] = g[i]
\* C05: add/diff are inverse in every alignment; order agrees with difference
Inverses ==
  \A tag \in 0..5 : LET a == Align(tag, <<ymd[1], ymd[2], ymd[3], 13, 14, 15>>) IN
    \A n \in Ns :
      LET b == Add(tag, a, W(n)) IN
      /\ ValidFields(b) /\ IsAligned(tag, b)
      /\ Diff(tag, b, a) = W(n)
      /\ Add(tag, b, Diff(tag, a, b)) = a
      /\ Less(a, b) = (n > 0) /\ Less(b, a) = (n < 0)
      /\ (WCmp(Diff(tag, a, b), WZero) < 0) = Less(a, b)
      /\ Add(tag, Add(tag, a, W(n)), W(1)) = Add(tag, a, W(n + 1))
=============================================================================
