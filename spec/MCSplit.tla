------------------------------ MODULE MCSplit ------------------------------
(* Floor laws of Split on small counts (C18 on the specification). *)
EXTENDS Split, Integers
VARIABLES c, k
Ratios == {<<1, 1>>, <<1, 3>>, <<1, 1000>>, <<60, 1>>, <<3600, 1>>}
Init == c \in -400..400 /\ k \in Ratios
Next == UNCHANGED <<c, k>>
Spec == Init /\ [][Next]_<<c, k>>
num == k[1]
den == k[2]
S == SplitSeconds(W(c), num, W(den))
\* the whole second is at or below the instant and less than one second below it
FloorLaw == /\ WInt(S[1]) * den <= c * num /\ c * num < (WInt(S[1]) + 1) * den
            /\ WInt(S[2]) \in 0..(den - 1)
            /\ den > 1 => WInt(S[1]) * den + WInt(S[2]) = c
\* join o split = identity where representable; failure exactly when out of the Rep's range
JoinLaw == LET j8 == JoinSeconds(S[1], Femtos(S[2], W(den)), 8, num, W(den)) IN
           /\ (den = 1) => (j8.ok = (c \in -128..127) /\ (j8.ok => j8.count = W(c)))
           /\ (den = 1000) => (j8.ok => j8.count = W(c))
           \* 1/3-second ticks are not exact multiples of a femtosecond: the tick at or below
           /\ (den = 3) => WInt(JoinSeconds(S[1], Femtos(S[2], W(3)), 64, 1, W(3)).count) \in {c - 1, c}
FracLaw == LET fs == Femtos(S[2], W(den)) IN
           /\ WLe(WZero, fs) /\ WLt(fs, Pow10(15))
           /\ Len(FracDigits(fs, 15)) = 15 /\ Len(FracStar(fs)) >= 1
=============================================================================
