------------------------------ MODULE MCLoader ------------------------------
EXTENDS Loader
MCNames == {"a", "b", "bad", "fx", "utc"}
MCKind == [n \in MCNames |-> CASE n = "a" -> "good" [] n = "b" -> "good" [] n = "bad" -> "bad" [] n = "fx" -> "fixed" [] n = "utc" -> "utc"]
MCNames2 == {"a", "bad", "fx"}
MCKind2 == [n \in MCNames2 |-> CASE n = "a" -> "good" [] n = "bad" -> "bad" [] n = "fx" -> "fixed"]
=============================================================================
