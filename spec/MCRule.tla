-------------------------------- MODULE MCRule --------------------------------
(***************************************************************************)
(* The design claim C01/C02 rest on, model-checked on real-range zones:      *)
(* "a table of 403 generated rule years plus shifting by whole 400-year      *)
(* cycles" (ZoneImplRule) gives the answers of the declarative Zone in every *)
(* year of the cycle after the recorded data, at the seam, and many cycles   *)
(* later, with every 64-bit intermediate inside int64.                       *)
(* One state per (zone, year of the cycle, cycle shift).                     *)
(***************************************************************************)
EXTENDS ZoneImplRule, Json, IOUtils, TLC
RealTMin == <<-1, 5808, 5477, 368, 3372, 922>>
RealTMax == <<1, 5807, 5477, 368, 3372, 922>>
RealBigBang == <<-1, 3488, 342, 7523, 6460, 57>>
RealSentinel == <<1, 3647, 4748, 21>>
CONSTANTS YearStep          \* every YearStep-th year of the cycle (1 = all 400)
In == ndJsonDeserialize(IOEnv.ZONES)
\* cycle shifts: the generated years themselves, 1 and 2 cycles later, 1000 and 10^6 cycles later, and (-1, -2)
\* the last and the last but one cycle that still reaches below time_point::max() (year 292277026596)
Shifts == {0, 1, 2, 1000, 1000000, -1, -2}
MaxYear == <<1, 6596, 7702, 2922>>
VARIABLES z, dy, sh, ph, zn, tab
\* A branching tree (zone, then year, then cycle shift) instead of a set of initial states: TLC evaluates
\* initial states - and the successors of one state - on a single thread.  The decoded zone and the table
\* ExtendTransitions builds for it are computed once, when the zone is chosen, and carried in the state.
vars == <<z, dy, sh, ph, zn, tab>>
Init == z = 0 /\ dy = 0 /\ sh = 0 /\ ph = 0 /\ zn = <<>> /\ tab = <<>>
Next == \/ /\ ph = 0 /\ z' \in 1..Len(In) /\ ph' = 1 /\ UNCHANGED <<dy, sh>>
           /\ zn' = MkZone(Decode(In[z'].bytes)) /\ tab' = TableR(zn')
        \/ ph = 1 /\ dy' \in {y \in 0..402 : y % YearStep = 0 \/ y >= 398} /\ ph' = 2 /\ UNCHANGED <<z, sh, zn, tab>>
        \/ ph = 2 /\ sh' \in Shifts /\ ph' = 3 /\ UNCHANGED <<z, dy, zn, tab>>
Spec == Init /\ [][Next]_vars

Zn == zn
LastSh == WFloorDiv(MaxYear \ominus (Y0(Zn) \oplus W(dy)), W(400))[1]
ShW == IF sh >= 0 THEN W(sh) ELSE LastSh \oplus W(sh + 1)
Year == (Y0(Zn) \oplus W(dy)) \oplus WMulSmall(ShW, 400)
\* the instants the specification places rule changes at in that year (+-1 s), inside the int64 range
Instants == LET C == RuleCtx(Zn, Year)
                \* the rule instants of the years Year-1 .. Year (the context holds Year-3 .. Year+2 in time order)
                idx == {i \in 1..Len(C.seq) : i > Len(C.seq) - 8 /\ i <= Len(C.seq) - 4} IN
            {t \in UNION {{C.seq[i].at \ominus W(1), C.seq[i].at, C.seq[i].at \oplus W(1)} : i \in idx} :
               TMin \prec t /\ t \prec TMax}
BreakRefines == ph = 3 =>
  \A t \in Instants :
    LET a == BreakR(Zn, tab, t)  b == Break(Zn, t) IN
    /\ a.fits
    /\ a.cs = b.cs /\ a.T.off = b.off /\ a.T.dst = b.dst /\ a.T.abbr = b.abbr
MakeRefines == ph = 3 =>
  \A t \in Instants :
    \A d \in {-1, 0, 1800} :
      LET cs == CivPlus(Break(Zn, t).cs, W(d))
          a == MakeR(Zn, tab, cs)  b == Make(Zn, cs) IN
      b.kind # "ILLFORMED" =>
        /\ a.fits
        /\ a.r.kind = b.kind /\ Clamp(a.r.pre) = b.pre /\ Clamp(a.r.trans) = b.trans /\ Clamp(a.r.post) = b.post
=============================================================================
