-------------------------------- MODULE Parse --------------------------------
(***************************************************************************)
(* cctz::parse (C09): which (format, input) pairs are accepted and which    *)
(* instant they denote.  Strings are sequences of byte values without NUL.  *)
(* Specifiers the library does not handle itself are delegated, one per     *)
(* call, to the C library's strptime - an uninterpreted environment         *)
(* function recorded by the harness as entries                              *)
(*   [spec, pos, ok, used, w]   (w: the broken-down fields it writes)       *)
(* for every position of the input.                                         *)
(***************************************************************************)
EXTENDS Format, TLC

IsSpaceC(c) == c = 32 \/ (c >= 9 /\ c <= 13)
cMinusP == 45  cPlusP == 43  cDotP == 46  cZ == 90  czl == 122  cTl == 116  cO == 79
PFail == [ok |-> FALSE]

RECURSIVE SkipSpace(_, _)
SkipSpace(s, i) == IF IsSpaceC(AtF(s, i)) THEN SkipSpace(s, i + 1) ELSE i

RECURSIVE SkipNonSpace(_, _)
SkipNonSpace(s, i) == IF i <= Len(s) /\ ~IsSpaceC(s[i]) THEN SkipNonSpace(s, i + 1) ELSE i

\* ---- numeric fields: ParseInt(width, lo, hi) ----
\* an optional '-' (which counts toward a positive width), then at least one digit (at most `width`
\* characters in all when width > 0); "-0" is not a number; the value must lie in lo..hi (wide)
RECURSIVE DigitRun(_, _, _)
DigitRun(s, i, maxn) == IF IsDigitC(AtF(s, i)) /\ maxn # 0 THEN DigitRun(s, i + 1, maxn - 1) ELSE i     \* maxn < 0: unlimited
RECURSIVE WVal(_, _, _)
WVal(s, i, j) == IF i >= j THEN WZero ELSE WMulSmall(WVal(s, i, j - 1), 10) \oplus W(s[j - 1] - 48)
ParseNum(s, i, width, lo, hi) ==
  LET neg == AtF(s, i) = cMinusP
      i1 == IF neg THEN i + 1 ELSE i
      room == IF width <= 0 THEN -1 ELSE IF neg THEN width - 1 ELSE width
      j == DigitRun(s, i1, room)
      mag == WVal(s, i1, j)
      v == IF neg THEN WNeg(mag) ELSE mag
  IN  IF (neg /\ width = 1) \/ j = i1 \/ (neg /\ IsZero(mag)) \/ ~WLe(lo, v) \/ ~WLe(v, hi) THEN PFail
      ELSE [ok |-> TRUE, nx |-> j, v |-> v]
Num2(s, i, lo, hi) == ParseNum(s, i, 2, W(lo), W(hi))       \* two-character fields
NumAny(s, i, lo, hi) == ParseNum(s, i, 0, W(lo), W(hi))

\* ---- UTC offsets: [+-]hh[[:]mm[[:]ss]] with hh 00-23, mm/ss 00-59, or Z / z ----
ParseOff(s, i, sep) ==
  LET c == AtF(s, i) IN
  IF c = cZ \/ c = czl THEN [ok |-> TRUE, nx |-> i + 1, v |-> 0]
  ELSE IF c # cPlusP /\ c # cMinusP THEN PFail
  ELSE LET sg == IF c = cMinusP THEN -1 ELSE 1
           h == Num2(s, i + 1, 0, 23) IN
       IF ~h.ok \/ h.nx # i + 3 THEN PFail
       ELSE LET a == IF sep /\ AtF(s, h.nx) = cCol THEN h.nx + 1 ELSE h.nx
                m == Num2(s, a, 0, 59) IN
            IF ~m.ok \/ m.nx # a + 2 THEN [ok |-> TRUE, nx |-> h.nx, v |-> sg * WInt(h.v) * 3600]
            ELSE LET b == IF sep /\ AtF(s, m.nx) = cCol THEN m.nx + 1 ELSE m.nx
                     x == Num2(s, b, 0, 59) IN
                 IF ~x.ok \/ x.nx # b + 2 THEN [ok |-> TRUE, nx |-> m.nx, v |-> sg * (WInt(h.v) * 3600 + WInt(m.v) * 60)]
                 ELSE [ok |-> TRUE, nx |-> x.nx, v |-> sg * (WInt(h.v) * 3600 + WInt(m.v) * 60 + WInt(x.v))]
\* fractional digits: at least one; the first 15 count (femtoseconds), the rest are dropped
ParseFrac(s, i) ==
  LET j == DigitRun(s, i, -1) IN
  IF j = i THEN PFail
  ELSE LET k == IF j - i > 15 THEN i + 15 ELSE j IN
       [ok |-> TRUE, nx |-> j, v |-> WMul(WVal(s, i, k), Pow10(15 - (k - i)))]

\* ---- the specifier loop ----
\* parse state: position d in the input (0 = failed), the broken-down fields, and the flags
St0 == [d |-> 1, year |-> W(1970), sawyear |-> FALSE, mon |-> 1, mday |-> 1, hour |-> 0, min |-> 0, sec |-> 0, wday |-> 4,
        fs |-> WZero, sawoff |-> FALSE, off |-> 0, h12 |-> FALSE, pm |-> FALSE, week |-> -1, wstart |-> 0,
        saws |-> FALSE, secs |-> WZero, deleg |-> FALSE, delegx |-> FALSE, open |-> FALSE]
FailSt(st) == [st EXCEPT !.d = 0]
\* seconds with an optional fraction (%E*S, %E#S)
SecFrac(st, inp) ==
  LET r == Num2(inp, st.d, 0, 60) IN
  IF ~r.ok THEN FailSt(st)
  ELSE IF AtF(inp, r.nx) = cDotP THEN
         LET f == ParseFrac(inp, r.nx + 1) IN
         IF ~f.ok THEN FailSt(st) ELSE [st EXCEPT !.d = f.nx, !.sec = WInt(r.v), !.fs = f.v]
       ELSE [st EXCEPT !.d = r.nx, !.sec = WInt(r.v)]
OptFrac(st, inp) ==
  IF IsDigitC(AtF(inp, st.d)) THEN LET f == ParseFrac(inp, st.d) IN [st EXCEPT !.d = f.nx, !.fs = f.v] ELSE st

\* strptime for one delegated specifier at the current position (environment)
EnvP(env, spec, pos) == LET k == {i \in 1..Len(env) : env[i].spec = spec /\ env[i].pos = pos} IN
                        IF k = {} THEN [known |-> FALSE] ELSE [known |-> TRUE] @@ env[CHOOSE i \in k : TRUE]
Delegate(st, spec, env) ==
  LET r == EnvP(env, spec, st.d - 1) IN
  IF ~r.known \/ ~r.stable THEN [st EXCEPT !.open = TRUE, !.d = 0]      \* no recorded answer: outcome left open
  ELSE IF r.ok = 0 THEN [st EXCEPT !.d = 0, !.deleg = TRUE, !.delegx = @ \/ (spec \notin {<<37, 97>>, <<37, 65>>, <<37, 112>>})]
  ELSE LET w == r.w IN
       [st EXCEPT !.d = st.d + r.used, !.deleg = TRUE,
                  !.year = IF "year" \in DOMAIN w THEN (IF st.sawyear THEN @ ELSE W(w.year + 1900)) ELSE @,
                  !.mon = IF "mon" \in DOMAIN w THEN w.mon + 1 ELSE @,
                  !.mday = IF "mday" \in DOMAIN w THEN w.mday ELSE @,
                  !.hour = IF "hour" \in DOMAIN w THEN w.hour ELSE @,
                  !.min = IF "min" \in DOMAIN w THEN w.min ELSE @,
                  !.sec = IF "sec" \in DOMAIN w THEN w.sec ELSE @,
                  \* the weekday a name (%a %A) denotes; any other delegated specifier may also touch the C library's
                  \* own weekday bookkeeping in ways the recorded graph does not determine (delegx)
                  !.wday = IF "wday" \in DOMAIN w THEN w.wday ELSE @,
                  !.delegx = @ \/ (spec \notin {<<37, 97>>, <<37, 65>>, <<37, 112>>}),
                  !.pm = IF spec = <<37, 112>> THEN r.pm = 1 ELSE @]

\* one step at format position f (the character at fmt[f]); returns <<state, next f>>
StepP(fmt, f, inp, st, env) ==
  LET c == fmt[f] IN
  IF IsSpaceC(c) THEN <<[st EXCEPT !.d = SkipSpace(inp, st.d)], SkipSpace(fmt, f)>>
  ELSE IF c # cPct THEN (IF AtF(inp, st.d) = c THEN <<[st EXCEPT !.d = @ + 1], f + 1>> ELSE <<FailSt(st), f + 1>>)
  ELSE IF f = Len(fmt) THEN <<FailSt(st), f + 1>>              \* a lone '%' at the end of the format
  ELSE
  LET x == fmt[f + 1]
      g == f + 2
      Set(r, upd(_, _)) == IF r.ok THEN upd([st EXCEPT !.d = r.nx], r.v) ELSE FailSt(st)
      Deleg(n) == <<Delegate(st, SubSeq(fmt, f, f + n - 1), env), f + n>>      \* n characters "%..." go to strptime
  IN
  CASE x = 89  -> <<Set(ParseNum(inp, st.d, 0, I64Min, I64Max), LAMBDA s, v : [s EXCEPT !.year = v, !.sawyear = TRUE]), g>>
    [] x = 109 -> <<[Set(Num2(inp, st.d, 1, 12), LAMBDA s, v : [s EXCEPT !.mon = WInt(v)]) EXCEPT !.week = -1], g>>
    [] x \in {100, 101} -> <<[Set(Num2(inp, st.d, 1, 31), LAMBDA s, v : [s EXCEPT !.mday = WInt(v)]) EXCEPT !.week = -1], g>>
    [] x = 85  -> <<[Set(NumAny(inp, st.d, 0, 53), LAMBDA s, v : [s EXCEPT !.week = WInt(v)]) EXCEPT !.wstart = 0], g>>
    [] x = 87  -> <<[Set(NumAny(inp, st.d, 0, 53), LAMBDA s, v : [s EXCEPT !.week = WInt(v)]) EXCEPT !.wstart = 1], g>>
    [] x = 117 -> <<Set(NumAny(inp, st.d, 1, 7), LAMBDA s, v : [s EXCEPT !.wday = WInt(v) % 7]), g>>
    [] x = 119 -> <<Set(NumAny(inp, st.d, 0, 6), LAMBDA s, v : [s EXCEPT !.wday = WInt(v)]), g>>
    [] x = 72  -> <<[Set(Num2(inp, st.d, 0, 23), LAMBDA s, v : [s EXCEPT !.hour = WInt(v)]) EXCEPT !.h12 = FALSE], g>>
    [] x = 77  -> <<Set(Num2(inp, st.d, 0, 59), LAMBDA s, v : [s EXCEPT !.min = WInt(v)]), g>>
    [] x = 83  -> <<Set(Num2(inp, st.d, 0, 60), LAMBDA s, v : [s EXCEPT !.sec = WInt(v)]), g>>
    [] x = 122 -> <<Set(ParseOff(inp, st.d, FALSE), LAMBDA s, v : [s EXCEPT !.off = v, !.sawoff = TRUE]), g>>
    [] x = 90  -> LET j == SkipNonSpace(inp, st.d) IN <<IF j = st.d THEN FailSt(st) ELSE [st EXCEPT !.d = j], g>>
    [] x = 115 -> <<Set(ParseNum(inp, st.d, 0, I64Min, I64Max), LAMBDA s, v : [s EXCEPT !.secs = v, !.saws = TRUE]), g>>
    [] x = cPct -> <<IF AtF(inp, st.d) = cPct THEN [st EXCEPT !.d = @ + 1] ELSE FailSt(st), g>>
    [] x = cCol ->
         LET n == IF AtF(fmt, g) = czl THEN 1 ELSE IF AtF(fmt, g) = cCol /\ AtF(fmt, g + 1) = czl THEN 2
                  ELSE IF AtF(fmt, g) = cCol /\ AtF(fmt, g + 1) = cCol /\ AtF(fmt, g + 2) = czl THEN 3 ELSE 0 IN
         IF n > 0 THEN <<Set(ParseOff(inp, st.d, TRUE), LAMBDA s, v : [s EXCEPT !.off = v, !.sawoff = TRUE]), g + n>>
         ELSE Deleg(2)
    [] x = cE ->
         LET y == AtF(fmt, g) IN
         IF y = cT THEN <<IF AtF(inp, st.d) \in {cT, cTl} THEN [st EXCEPT !.d = @ + 1] ELSE FailSt(st), g + 1>>
         ELSE IF y = czl \/ (y = cStar /\ AtF(fmt, g + 1) = czl) THEN
           <<Set(ParseOff(inp, st.d, TRUE), LAMBDA s, v : [s EXCEPT !.off = v, !.sawoff = TRUE]), IF y = czl THEN g + 1 ELSE g + 2>>
         ELSE IF y = cStar /\ AtF(fmt, g + 1) = cS THEN <<SecFrac(st, inp), g + 2>>
         ELSE IF y = cStar /\ AtF(fmt, g + 1) = cf THEN <<OptFrac(st, inp), g + 2>>
         ELSE IF y = c4 /\ AtF(fmt, g + 1) = cY THEN
           LET r == ParseNum(inp, st.d, 4, W(-999), W(9999)) IN
           <<IF r.ok /\ r.nx = st.d + 4 THEN [st EXCEPT !.d = r.nx, !.year = r.v, !.sawyear = TRUE] ELSE FailSt(st), g + 2>>
         ELSE IF IsDigitC(y) /\ DigitsVal(fmt, g, DigitsEnd(fmt, g)) <= 1024 /\ AtF(fmt, DigitsEnd(fmt, g)) = cS THEN
           <<SecFrac(st, inp), DigitsEnd(fmt, g) + 1>>
         ELSE IF IsDigitC(y) /\ DigitsVal(fmt, g, DigitsEnd(fmt, g)) <= 1024 /\ AtF(fmt, DigitsEnd(fmt, g)) = cf THEN
           <<OptFrac(st, inp), DigitsEnd(fmt, g) + 1>>
         ELSE LET r == Deleg(IF g <= Len(fmt) THEN 3 ELSE 2) IN
              <<[r[1] EXCEPT !.h12 = IF y \in {99, 88} THEN FALSE ELSE @], r[2]>>       \* %Ec %EX use %H
    [] x = cO ->
         LET y == AtF(fmt, g)  r == Deleg(IF g <= Len(fmt) THEN 3 ELSE 2) IN
         <<[r[1] EXCEPT !.h12 = IF y = 72 THEN FALSE ELSE IF y = 73 THEN TRUE ELSE @], r[2]>>
    [] x \in {73, 108, 114} -> LET r == Deleg(2) IN <<[r[1] EXCEPT !.h12 = TRUE], r[2]>>        \* %I %l %r
    [] x \in {82, 84, 99, 88} -> LET r == Deleg(2) IN <<[r[1] EXCEPT !.h12 = FALSE], r[2]>>     \* %R %T %c %X
    [] OTHER -> Deleg(2)

RECURSIVE RunP(_, _, _, _, _)
RunP(fmt, f, inp, st, env) ==
  IF st.d = 0 \/ f > Len(fmt) THEN st
  ELSE LET r == StepP(fmt, f, inp, st, env) IN RunP(fmt, r[2], inp, r[1], env)

\* the delegated specifier strings of a format (exported to the harness: GenParse)
RECURSIVE DelegSpecs(_, _)
DelegSpecs(fmt, f) ==
  IF f > Len(fmt) THEN {}
  ELSE IF IsSpaceC(fmt[f]) THEN DelegSpecs(fmt, SkipSpace(fmt, f))
  ELSE IF fmt[f] # cPct \/ f = Len(fmt) THEN DelegSpecs(fmt, f + 1)
  ELSE LET probe == [spec |-> <<>>, pos |-> 0]
           r == StepP(fmt, f, <<>>, St0, <<>>) IN
       \* a step that left the outcome open consulted the (empty) environment: it is a delegated one
       (IF r[1].open THEN {SubSeq(fmt, f, r[2] - 1)} ELSE {}) \cup DelegSpecs(fmt, r[2])

\* ---- from the fields to the instant ----
\* %U/%W week numbers: week 0 starts at the last `wstart` weekday (0 = Sunday, 1 = Monday) before
\* January 1st; the date is the first day with weekday `wday` (0 = Sunday) on or after it, plus the weeks
FromWeek(year, week, wstart, wday) ==
  LET jan1 == DaysFromCivil(year, 1, 1)
      wd1 == (Weekday(jan1) + 1) % 7                         \* 0 = Sunday
      back == LET k == (wd1 - wstart + 7) % 7 IN IF k = 0 THEN 7 ELSE k
      day == ((jan1 \ominus W(back)) \oplus W((wday - wstart + 7) % 7)) \oplus W(7 * week)
  IN  CivilFromDays(day)
\* what parse() returns: [ok, t, fs] - or open = TRUE when the specification leaves the outcome open.
\* zmake(cs) is the zone's reading of a civil second: the unclamped `pre` instant (wide).
ParseResult(fmt, input, env, zmake(_)) ==
  LET st == RunP(fmt, 1, input, [St0 EXCEPT !.d = SkipSpace(input, 1)], env) IN
  IF st.open THEN [open |-> TRUE]
  ELSE IF st.d = 0 \/ SkipSpace(input, st.d) <= Len(input) THEN [open |-> FALSE, ok |-> FALSE]
  ELSE IF st.saws THEN [open |-> FALSE, ok |-> TRUE, t |-> st.secs, fs |-> WZero]
  ELSE IF st.week # -1 /\ st.delegx THEN [open |-> TRUE]      \* strptime's own weekday bookkeeping: left open
  ELSE
  LET hour == IF st.h12 /\ st.pm /\ st.hour < 12 THEN st.hour + 12 ELSE st.hour
      leap == st.sec = 60
      sec == IF leap THEN 59 ELSE st.sec
      off == IF leap THEN st.off - 1 ELSE st.off
      fs == IF leap THEN WZero ELSE st.fs
      ymd == IF st.week # -1 THEN FromWeek(st.year, st.week, st.wstart, st.wday) ELSE <<st.year, st.mon, st.mday>>
  IN
  IF ~InI64(ymd[1]) \/ ~ValidDate(ymd[1], ymd[2], ymd[3]) THEN [open |-> FALSE, ok |-> FALSE]       \* no normalisation: the date must exist
  ELSE LET cs == <<ymd[1], ymd[2], ymd[3], hour, st.min, sec>>
           t == IF st.sawoff THEN SecondsOf(cs) \ominus W(off) ELSE zmake(Add(TagSecond, cs, W(-off)))
       IN  IF InI64(t) THEN [open |-> FALSE, ok |-> TRUE, t |-> t, fs |-> fs] ELSE [open |-> FALSE, ok |-> FALSE]
=============================================================================
