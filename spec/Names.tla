-------------------------------- MODULE Names --------------------------------
(***************************************************************************)
(* How a zone name is resolved (C19).  Strings are byte sequences; an unset  *)
(* environment variable is the value Unset.  The file system is given as a   *)
(* finite table the harness read (path -> kind, bytes).                      *)
(***************************************************************************)
EXTENDS Fixed, Sequences
Unset == <<-1>>
IsSet(v) == v # Unset
StartsWith(s, p) == Len(s) >= Len(p) /\ SubSeq(s, 1, Len(p)) = p
FilePrefix == <<102, 105, 108, 101, 58>>           \* "file:"
LibcPrefix == <<108, 105, 98, 99, 58>>             \* "libc:" (internal test interface: not covered)
DefaultTzdir == <<47,117,115,114,47,115,104,97,114,101,47,122,111,110,101,105,110,102,111>>   \* "/usr/share/zoneinfo"
LocaltimeWord == <<108, 111, 99, 97, 108, 116, 105, 109, 101>>                               \* "localtime"
EtcLocaltime == <<47, 101, 116, 99, 47>> \o LocaltimeWord                                     \* "/etc/localtime"
Slash == 47
Colon == 58

\* the path whose contents define the zone, for a name that is not a fixed-offset name
PathOf(env, name) ==
  LET rest == IF StartsWith(name, FilePrefix) THEN SubSeq(name, 6, Len(name)) ELSE name IN
  IF rest # <<>> /\ rest[1] = Slash THEN rest
  ELSE (IF IsSet(env.tzdir) /\ env.tzdir # <<>> THEN env.tzdir ELSE DefaultTzdir) \o <<Slash>> \o rest

\* the name local_time_zone() loads
LocalName(env) ==
  LET z0 == IF IsSet(env.tz) THEN env.tz ELSE <<Colon>> \o LocaltimeWord
      z1 == IF z0 # <<>> /\ z0[1] = Colon THEN Tail(z0) ELSE z0
  IN  IF z1 = LocaltimeWord THEN (IF IsSet(env.localtime) THEN env.localtime ELSE EtcLocaltime) ELSE z1
=============================================================================
