------------------------------- MODULE Wide -------------------------------
(***************************************************************************)
(* Exact integers of unbounded size for TLC, whose native integers are      *)
(* 32-bit.  A wide integer is the tuple <<sign, l1, ..., ln>> with          *)
(* sign \in {1,-1} and little-endian base-10^4 limbs without a leading      *)
(* (most significant) zero limb; zero is <<1>>.  This is also the JSON      *)
(* shape in which the harness logs every 64-bit quantity, so no conversion  *)
(* happens between the trace and the specification.                         *)
(*                                                                         *)
(* Limits: MulSmall/DivMod take a native factor/divisor of magnitude        *)
(* at most 200000 (so 86400 and 146097 are applied directly) - with base    *)
(* 10^4 every intermediate stays below 2^31.                                *)
(***************************************************************************)
EXTENDS Integers, Sequences

B == 10000

WZero == <<1>>
IsWide(w) == /\ Len(w) >= 1 /\ w[1] \in {1, -1}
             /\ \A i \in 2..Len(w) : w[i] \in 0..(B-1)
             /\ (Len(w) > 1 => w[Len(w)] # 0)
             /\ (Len(w) = 1 => w[1] = 1)

(* ---- magnitudes: plain sequences of limbs ---- *)
RECURSIVE MTrim(_)
MTrim(m) == IF m = <<>> THEN m
            ELSE IF m[Len(m)] = 0 THEN MTrim(SubSeq(m, 1, Len(m) - 1)) ELSE m

RECURSIVE MAddR(_, _, _, _)
MAddR(a, b, i, c) ==
  IF i > Len(a) /\ i > Len(b) THEN (IF c = 0 THEN <<>> ELSE <<c>>)
  ELSE LET s == (IF i <= Len(a) THEN a[i] ELSE 0) + (IF i <= Len(b) THEN b[i] ELSE 0) + c
       IN  <<s % B>> \o MAddR(a, b, i + 1, s \div B)
MAdd(a, b) == MAddR(a, b, 1, 0)

RECURSIVE MCmpR(_, _, _)
MCmpR(a, b, i) == IF i = 0 THEN 0
                  ELSE IF a[i] < b[i] THEN -1 ELSE IF a[i] > b[i] THEN 1 ELSE MCmpR(a, b, i - 1)
MCmp(a, b) == IF Len(a) < Len(b) THEN -1 ELSE IF Len(a) > Len(b) THEN 1 ELSE MCmpR(a, b, Len(a))

RECURSIVE MSubR(_, _, _, _)    \* requires a >= b
MSubR(a, b, i, br) ==
  IF i > Len(a) THEN <<>>
  ELSE LET s == a[i] - (IF i <= Len(b) THEN b[i] ELSE 0) - br
       IN  IF s < 0 THEN <<s + B>> \o MSubR(a, b, i + 1, 1)
                    ELSE <<s>> \o MSubR(a, b, i + 1, 0)
MSub(a, b) == MTrim(MSubR(a, b, 1, 0))

RECURSIVE MMulR(_, _, _, _)    \* 0 <= k <= 200000
MMulR(a, k, i, c) ==
  IF i > Len(a) THEN (IF c = 0 THEN <<>> ELSE IF c < B THEN <<c>> ELSE <<c % B, c \div B>>)
  ELSE LET s == a[i] * k + c IN <<s % B>> \o MMulR(a, k, i + 1, s \div B)
MMul(a, k) == IF k = 0 THEN <<>> ELSE MMulR(a, k, 1, 0)

RECURSIVE MDivR(_, _, _, _)    \* 1 <= k <= 200000; from the most significant limb down
MDivR(a, k, i, r) ==           \* returns <<quotient limbs little-endian, remainder>>
  IF i = 0 THEN <<<<>>, r>>
  ELSE LET cur == r * B + a[i]
           rest == MDivR(a, k, i - 1, cur % k)
       IN  <<rest[1] \o <<cur \div k>>, rest[2]>>
MDiv(a, k) == LET qr == MDivR(a, k, Len(a), 0) IN <<MTrim(qr[1]), qr[2]>>

(* ---- signed ---- *)
Mk(s, m) == IF m = <<>> THEN WZero ELSE <<s>> \o m
Mag(w) == Tail(w)
IsZero(w) == Len(w) = 1
WNeg(w) == IF IsZero(w) THEN w ELSE <<-w[1]>> \o Tail(w)
WAdd(a, b) ==
  IF a[1] = b[1] THEN Mk(a[1], MAdd(Mag(a), Mag(b)))
  ELSE LET c == MCmp(Mag(a), Mag(b)) IN
       IF c = 0 THEN WZero
       ELSE IF c > 0 THEN Mk(a[1], MSub(Mag(a), Mag(b)))
       ELSE Mk(b[1], MSub(Mag(b), Mag(a)))
WSub(a, b) == WAdd(a, WNeg(b))
WCmp(a, b) == IF a[1] # b[1] THEN (IF a[1] < b[1] THEN -1 ELSE 1)
              ELSE a[1] * MCmp(Mag(a), Mag(b))
WLt(a, b) == WCmp(a, b) < 0
WLe(a, b) == WCmp(a, b) <= 0
WMax(a, b) == IF WLt(a, b) THEN b ELSE a
WMin(a, b) == IF WLt(a, b) THEN a ELSE b

RECURSIVE NatMag(_)
NatMag(n) == IF n = 0 THEN <<>> ELSE <<n % B>> \o NatMag(n \div B)
W(n) == IF n >= 0 THEN Mk(1, NatMag(n))
        ELSE IF n = -2147483647 - 1 THEN <<-1, 3648, 4748, 21>>          \* -2^31 cannot be negated natively
        ELSE Mk(-1, NatMag(-n))                                           \* native -> wide

WMulSmall(a, k) == IF k >= 0 THEN Mk(a[1], MMul(Mag(a), k)) ELSE Mk(-a[1], MMul(Mag(a), -k))

\* floor division by a native k in 1..200000: <<quotient (wide), remainder (native, 0..k-1)>>
WDivMod(a, k) ==
  LET qr == MDiv(Mag(a), k) IN
  IF a[1] = 1 THEN <<Mk(1, qr[1]), qr[2]>>
  ELSE IF qr[2] = 0 THEN <<Mk(-1, qr[1]), 0>>
  ELSE <<Mk(-1, MAdd(qr[1], <<1>>)), k - qr[2]>>
WDiv(a, k) == WDivMod(a, k)[1]
WMod(a, k) == WDivMod(a, k)[2]
\* truncating division (C semantics), remainder has the sign of the dividend
WQuotRem(a, k) == LET qr == MDiv(Mag(a), k) IN <<Mk(a[1], qr[1]), a[1] * qr[2]>>

\* wide -> native; only for values known to be below 2^31 in magnitude (<= 2 limbs + small third)
RECURSIVE MagInt(_, _)
MagInt(m, i) == IF i > Len(m) THEN 0 ELSE m[i] + B * MagInt(m, i + 1)
WInt(w) == w[1] * MagInt(Mag(w), 1)
FitsNative(w) == Len(w) <= 3 \/ (Len(w) = 4 /\ w[4] <= 20)

\* general product of two wides (schoolbook through MulSmall on limbs)
RECURSIVE MMulW(_, _, _)
MMulW(a, b, i) == IF i > Len(b) THEN <<>>
                  ELSE MAdd(MMul(a, b[i]), LET r == MMulW(a, b, i + 1) IN IF r = <<>> THEN r ELSE <<0>> \o r)
WMul(a, b) == Mk(a[1] * b[1], MTrim(MMulW(Mag(a), Mag(b), 1)))

a \oplus b == WAdd(a, b)
a \ominus b == WSub(a, b)
a \prec b == WLt(a, b)
a \preceq b == WLe(a, b)

\* decimal rendering as a sequence of ASCII codes ("-" = 45, "0" = 48)
Limb4(x) == <<48 + (x \div 1000), 48 + ((x \div 100) % 10), 48 + ((x \div 10) % 10), 48 + (x % 10)>>
RECURSIVE StripZeros(_)
StripZeros(d) == IF Len(d) > 1 /\ d[1] = 48 THEN StripZeros(Tail(d)) ELSE d
RECURSIVE MagDec(_, _)
MagDec(m, i) == IF i = 0 THEN <<>> ELSE Limb4(m[i]) \o MagDec(m, i - 1)       \* most significant limb first
WDecMag(w) == IF IsZero(w) THEN <<48>> ELSE StripZeros(MagDec(Mag(w), Len(Mag(w))))
WDec(w) == IF w[1] = -1 THEN <<45>> \o WDecMag(w) ELSE WDecMag(w)
RECURSIVE Zeros(_)
Zeros(n) == IF n <= 0 THEN <<>> ELSE <<48>> \o Zeros(n - 1)
\* magnitude digits left-padded with zeros to at least `width` digits
WDecPad(w, width) == LET d == WDecMag(w) IN Zeros(width - Len(d)) \o d
\* 10^k as a wide (k >= 0)
RECURSIVE Pow10(_)
Pow10(k) == IF k = 0 THEN W(1) ELSE IF k >= 4 THEN Mk(1, <<0>> \o Mag(Pow10(k - 4))) ELSE WMulSmall(Pow10(k - 1), 10)
\* floor division of a wide by a positive wide (by repeated doubling; for the few places where the
\* divisor is not small); returns <<quotient, remainder>>, remainder in 0..b-1
RECURSIVE WDivPos(_, _)
WDivPos(a, b) ==      \* a >= 0, b > 0
  IF WLt(a, b) THEN <<WZero, a>>
  ELSE LET r == WDivPos(a, WMulSmall(b, 2))        \* a = q2 * 2b + r2
           q == WMulSmall(r[1], 2)
       IN  IF WLt(r[2], b) THEN <<q, r[2]>> ELSE <<WAdd(q, W(1)), WSub(r[2], b)>>
WFloorDiv(a, b) ==    \* b > 0
  IF a[1] = 1 THEN WDivPos(a, b)
  ELSE LET r == WDivPos(WNeg(a), b) IN
       IF IsZero(r[2]) THEN <<WNeg(r[1]), WZero>> ELSE <<WNeg(WAdd(r[1], W(1))), WSub(b, r[2])>>

\* the 64-bit limits
I64Max == <<1, 5807, 5477, 368, 3372, 922>>        \*  9223372036854775807
I64Min == <<-1, 5808, 5477, 368, 3372, 922>>       \* -9223372036854775808
InI64(w) == WLe(I64Min, w) /\ WLe(w, I64Max)
ClampI64(w) == IF WLt(w, I64Min) THEN I64Min ELSE IF WLt(I64Max, w) THEN I64Max ELSE w
=============================================================================
