---------------------------- MODULE TraceCommon ----------------------------
(* Shared skeleton for the trace specifications: the log is read once (constant-level   *)
(* definition, cached by TLC), `l` is the position of the next event to consume.        *)
(* A line the specification cannot match is reported (REJECT) and counted in `bad`, and *)
(* validation continues so that every rejected line of a run is known; a trace is       *)
(* accepted iff it was consumed to the end (diameter) with bad = 0.                     *)
EXTENDS Naturals, Sequences, TLC, Json, IOUtils
TraceLog == ndJsonDeserialize(IOEnv.TRACE)
TraceLen == Len(TraceLog)
Reject(l, why) == PrintT(<<"REJECT", l, why>>)
TraceConsumed == TLCGet("stats").diameter - 1 = TraceLen
=============================================================================
