------------------------------- MODULE Format -------------------------------
(***************************************************************************)
(* cctz::format (C08).  A format string (sequence of byte values) is cut,   *)
(* left to right, into                                                      *)
(*   - specifiers the library renders itself (internal items), and          *)
(*   - the stretches between them, which are either pure text (characters   *)
(*     and doubled percent signs: rendered here) or contain something       *)
(*     else and are then delegated to the C library's strftime, whose       *)
(*     answer is an uninterpreted function supplied by the environment.     *)
(* The obligation is on the output, not on how the implementation cuts the   *)
(* string: strftime's rendering of a stretch is the concatenation of the    *)
(* renderings of its parts.                                                 *)
(***************************************************************************)
EXTENDS CivilTime, Split

cPct == 37  cStar == 42  cCol == 58  cE == 69  cT == 84  cS == 83  cf == 102  cz == 122  cY == 89  c4 == 52
Simple == {89, 109, 100, 101, 85, 117, 87, 119, 72, 77, 83, 122, 90, 115}     \* Y m d e U u W w H M S z Z s
IsDigitC(c) == c >= 48 /\ c <= 57
AtF(s, i) == IF i <= Len(s) THEN s[i] ELSE -1

RECURSIVE PctRun(_, _)
PctRun(s, i) == IF AtF(s, i) = cPct THEN 1 + PctRun(s, i + 1) ELSE 0
RECURSIVE DigitsEnd(_, _)
DigitsEnd(s, i) == IF IsDigitC(AtF(s, i)) THEN DigitsEnd(s, i + 1) ELSE i
RECURSIVE DigitsVal(_, _, _)        \* value of s[i..j-1], capped
DigitsVal(s, i, j) == IF i >= j THEN 0 ELSE LET v == DigitsVal(s, i, j - 1) IN IF v > 100000 THEN v ELSE v * 10 + (s[j - 1] - 48)

\* The internal specifier that starts right after an unescaped '%' at position p (p = index of the
\* character after the '%'), as [kind, n, nx] (nx = position after it), or kind = "none".
None == [kind |-> "none", n |-> 0, nx |-> 0]
SpecAt(s, p) ==
  LET c == AtF(s, p) IN
  IF c \in Simple THEN [kind |-> "simple", n |-> c, nx |-> p + 1]
  ELSE IF c = cCol THEN
    IF AtF(s, p + 1) = cz THEN [kind |-> "colz", n |-> 1, nx |-> p + 2]
    ELSE IF AtF(s, p + 1) = cCol /\ AtF(s, p + 2) = cz THEN [kind |-> "colz", n |-> 2, nx |-> p + 3]
    ELSE IF AtF(s, p + 1) = cCol /\ AtF(s, p + 2) = cCol /\ AtF(s, p + 3) = cz THEN [kind |-> "colz", n |-> 3, nx |-> p + 4]
    ELSE None
  ELSE IF c = cE THEN
    LET d == AtF(s, p + 1) IN
    IF d = cT THEN [kind |-> "ET", n |-> 0, nx |-> p + 2]
    ELSE IF d = cz THEN [kind |-> "colz", n |-> 1, nx |-> p + 2]
    ELSE IF d = cStar /\ AtF(s, p + 2) = cz THEN [kind |-> "colz", n |-> 2, nx |-> p + 3]
    ELSE IF d = cStar /\ AtF(s, p + 2) = cS THEN [kind |-> "EstarS", n |-> 0, nx |-> p + 3]
    ELSE IF d = cStar /\ AtF(s, p + 2) = cf THEN [kind |-> "Estarf", n |-> 0, nx |-> p + 3]
    ELSE IF d = c4 /\ AtF(s, p + 2) = cY THEN [kind |-> "E4Y", n |-> 0, nx |-> p + 3]
    ELSE IF IsDigitC(d) THEN
      LET j == DigitsEnd(s, p + 1)  v == DigitsVal(s, p + 1, j) IN
      IF v <= 1024 /\ AtF(s, j) = cS THEN [kind |-> "EnS", n |-> v, nx |-> j + 1]
      ELSE IF v <= 1024 /\ AtF(s, j) = cf THEN [kind |-> "Enf", n |-> v, nx |-> j + 1]
      ELSE None
    ELSE None
  ELSE None

\* Items: the format cut into pieces <<"int", spec>> | <<"txt", bytes>> (a maximal stretch between
\* internal specifiers).  Scanning rule: a run of r percent signs is r \div 2 escaped pairs; if r is
\* odd the last one introduces a specifier; a '%' that introduces nothing the library renders stays
\* in the stretch together with what follows (for an 'E' modifier scanning resumes after the E).
RECURSIVE Scan(_, _, _, _)
Scan(s, i, from, acc) ==       \* from: start of the current stretch; acc: items so far
  IF i > Len(s) THEN (IF from <= Len(s) THEN Append(acc, <<"txt", SubSeq(s, from, Len(s))>>) ELSE acc)
  ELSE IF s[i] # cPct THEN Scan(s, i + 1, from, acc)
  ELSE LET r == PctRun(s, i)  p == i + r IN
       IF r % 2 = 0 \/ p > Len(s) THEN Scan(s, p, from, acc)
       ELSE LET sp == SpecAt(s, p) IN
            IF sp.kind = "none" THEN Scan(s, IF s[p] = cE THEN p + 1 ELSE p, from, acc)
            ELSE LET acc1 == IF from <= p - 2 THEN Append(acc, <<"txt", SubSeq(s, from, p - 2)>>) ELSE acc IN
                 Scan(s, sp.nx, sp.nx, Append(acc1, <<"int", sp>>))
Items(s) == Scan(s, 1, 1, <<>>)

\* a stretch that is only characters and percent pairs (optionally one final lone '%' at the very
\* end of the format) is rendered here; anything else is strftime's business
RECURSIVE PlainText(_, _)
PlainText(x, i) ==     \* <<is plain, rendering>>
  IF i > Len(x) THEN <<TRUE, <<>>>>
  ELSE IF x[i] # cPct THEN LET r == PlainText(x, i + 1) IN <<r[1], <<x[i]>> \o r[2]>>
  ELSE IF AtF(x, i + 1) = cPct THEN LET r == PlainText(x, i + 2) IN <<r[1], <<cPct>> \o r[2]>>
  ELSE IF i = Len(x) THEN <<TRUE, <<cPct>>>>     \* a final lone '%' (only possible at the end of the format) is kept
  ELSE <<FALSE, <<>>>>
\* the stretches of a format that must be rendered by strftime (exported to the harness: GenFormat)
Delegated(s) == LET it == Items(s) IN
  {it[k][2] : k \in {k \in 1..Len(it) : it[k][1] = "txt" /\ ~PlainText(it[k][2], 1)[1]}}

\* ---- rendering of the internal specifiers ----
D2F(v) == <<48 + ((v \div 10) % 10), 48 + (v % 10)>>
\* 0-based day of the year and weekday (0 = Sunday) of a civil second
YDay0(cs) == YearDayOf(cs) - 1
WDaySun(cs) == (WeekdayOf(cs) + 1) % 7
WeekU(cs) == (YDay0(cs) + 7 - WDaySun(cs)) \div 7                  \* weeks start on Sunday
WeekW(cs) == (YDay0(cs) + 7 - ((WDaySun(cs) + 6) % 7)) \div 7      \* weeks start on Monday
\* sign, minimum width 4 including the sign, zero padded
E4Y(y) == IF y[1] = -1 /\ ~IsZero(y) THEN <<45>> \o WDecPad(y, 3) ELSE WDecPad(y, 4)
\* UTC offset: mode 0 "+hhmm", 1 "+hh:mm", 2 "+hh:mm:ss", 3 "+hh[:mm[:ss]]"
Offset(off, mode) ==
  LET a == IF off < 0 THEN -off ELSE off
      ss == a % 60  mm == (a \div 60) % 60  hh == a \div 3600
      secs == mode = 2 \/ (mode = 3 /\ ss # 0)
      mins == mode # 3 \/ mm # 0 \/ ss # 0
      \* a negative offset of less than a minute that is rendered without its seconds reads "+"
      sign == IF off < 0 /\ ~(~secs /\ hh = 0 /\ mm = 0) THEN 45 ELSE 43
      sep == IF mode = 0 THEN <<>> ELSE <<cCol>>
  IN  <<sign>> \o D2F(hh) \o (IF mins THEN sep \o D2F(mm) ELSE <<>>) \o (IF secs THEN sep \o D2F(ss) ELSE <<>>)
\* n fractional digits of the femtosecond value: truncated for n <= 15, zero-extended up to 18
FracN(fs, n) == LET m == IF n > 18 THEN 18 ELSE n IN
                IF m <= 15 THEN FracDigits(fs, m) ELSE FracDigits(fs, 15) \o Zeros(m - 15)
RenderInt(sp, al, fs, t) ==
  LET cs == al.cs IN
  CASE sp.kind = "simple" ->
         (CASE sp.n = 89 -> WDec(cs[1])
            [] sp.n = 109 -> D2F(cs[2])
            [] sp.n = 100 -> D2F(cs[3])
            [] sp.n = 101 -> (IF cs[3] < 10 THEN <<32, 48 + cs[3]>> ELSE D2F(cs[3]))
            [] sp.n = 85 -> D2F(WeekU(cs))
            [] sp.n = 117 -> <<48 + (IF WDaySun(cs) = 0 THEN 7 ELSE WDaySun(cs))>>
            [] sp.n = 87 -> D2F(WeekW(cs))
            [] sp.n = 119 -> <<48 + WDaySun(cs)>>
            [] sp.n = 72 -> D2F(cs[4])
            [] sp.n = 77 -> D2F(cs[5])
            [] sp.n = 83 -> D2F(cs[6])
            [] sp.n = 122 -> Offset(al.off, 0)
            [] sp.n = 90 -> al.abbr
            [] sp.n = 115 -> WDec(t))
    [] sp.kind = "colz" -> Offset(al.off, sp.n)
    [] sp.kind = "ET" -> <<cT>>
    [] sp.kind = "E4Y" -> E4Y(cs[1])
    [] sp.kind = "EstarS" -> D2F(cs[6]) \o (IF IsZero(fs) THEN <<>> ELSE <<46>> \o FracStar(fs))
    [] sp.kind = "Estarf" -> FracStar(fs)
    [] sp.kind = "EnS" -> D2F(cs[6]) \o (IF sp.n = 0 THEN <<>> ELSE <<46>> \o FracN(fs, sp.n))
    [] sp.kind = "Enf" -> FracN(fs, sp.n)

\* position of the first '%' of a stretch that is not half of a "%%" pair (0 if none)
RECURSIVE FirstUnpaired(_, _)
FirstUnpaired(x, i) == IF i > Len(x) THEN 0
                       ELSE IF x[i] # cPct THEN FirstUnpaired(x, i + 1)
                       ELSE IF AtF(x, i + 1) = cPct THEN FirstUnpaired(x, i + 2) ELSE i
\* format() offers strftime a buffer of at most 16 times the length of the piece it hands over, and
\* that piece always contains the stretch from its first real conversion on; renderings that may not
\* fit (possible only with explicit field widths) are left open
FitsBuffer(x, o) == Len(o) < 16 * (Len(x) - FirstUnpaired(x, 1) + 1)
\* env: sequence of <<stretch, strftime output>> pairs recorded by the harness
EnvLookup(env, x) == LET k == {i \in 1..Len(env) : env[i][1] = x} IN
                     IF k = {} THEN <<FALSE, <<>>>>
                     ELSE LET o == env[CHOOSE i \in k : TRUE][2] IN <<FitsBuffer(x, o), o>>
RECURSIVE Render(_, _, _, _, _, _)
Render(it, k, al, fs, t, env) ==       \* <<determined, output>>
  IF k > Len(it) THEN <<TRUE, <<>>>>
  ELSE LET rest == Render(it, k + 1, al, fs, t, env)
           here == IF it[k][1] = "int" THEN <<TRUE, RenderInt(it[k][2], al, fs, t)>>
                   ELSE LET pt == PlainText(it[k][2], 1) IN
                        IF pt[1] THEN pt ELSE EnvLookup(env, it[k][2])
       IN  <<here[1] /\ rest[1], here[2] \o rest[2]>>
\* the text format() must produce; determined = every delegated stretch has a recorded strftime answer
FormatOut(fmt, al, fs, t, env) == Render(Items(fmt), 1, al, fs, t, env)
=============================================================================
