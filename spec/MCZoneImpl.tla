----------------------------- MODULE MCZoneImpl -----------------------------
(* Refinement check: the implementation-shaped model ZoneImpl against the declarative Zone on every   *)
(* small-world zone (generator of MCZone), for every value of the remembered table indices.           *)
EXTENDS MCZone, ZoneImpl
SmallSentinel == W(11)
Hints(T) == 0..Len(T)         \* every value the code can ever store (0 initially, then an upper_bound result)
InRange(t) == TMin \preceq W(t) /\ W(t) \preceq TMax
ClampRes(m) == [kind |-> m.kind, pre |-> Clamp(m.pre), trans |-> Clamp(m.trans), post |-> Clamp(m.post)]
\* every zone satisfying the property's premise passes Load()'s own acceptance test
LoadsAllWellFormed == done => LET z == Z IN WellFormed(z) => LoadOk(Table(z))
\* C01 / C14: BreakTime = Break whatever the hint
ImplBreak == done => LET z == Z  T == Table(z) IN LoadOk(T) =>
  \A hint \in Hints(T), t \in Win : InRange(t) =>
    LET b == BreakTime(z, T, hint, W(t))  s == Break(z, W(t)) IN
    /\ b.cs = s.cs /\ z.types[b.ty].off = s.off /\ z.types[b.ty].dst = s.dst /\ z.types[b.ty].abbr = s.abbr
    /\ b.hint \in 0..Len(T)
\* C02 / C10 / C14: MakeTime = Make whatever the hint (results compared after clamping to the range)
ImplMake == done => LET z == Z  T == Table(z) IN (Premise(z) /\ LoadOk(T)) =>
  \A hint \in Hints(T), cs \in CivWin :
    LET m == MakeTime(z, T, hint, cs)  s == Make(z, cs) IN
    /\ ClampRes(m.r) = [kind |-> s.kind, pre |-> s.pre, trans |-> s.trans, post |-> s.post]
    /\ m.hint \in 0..Len(T)
\* C11: next/prev over the table = the real changes of the specification
ImplTrans == done => LET z == Z  T == Table(z) IN LoadOk(T) =>
  \A t \in Win :
    LET a == ImplNext(z, T, W(t))  k == NextRecorded(z, W(t))
        b == ImplPrev(z, T, W(t))  j == PrevRecorded(z, W(t)) IN
    /\ a.ok = (k # 0) /\ (k # 0 => (a.at = z.at[k] /\ <<a.from, a.to>> = TrCivil(z, z.at[k])))
    /\ b.ok = (j # 0) /\ (j # 0 => (b.at = z.at[j] /\ <<b.from, b.to>> = TrCivil(z, z.at[j])))
=============================================================================
