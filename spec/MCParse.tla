------------------------------ MODULE MCParse ------------------------------
(***************************************************************************)
(* Model check of the Parse specification's field grammar: for single       *)
(* specifiers, every input string of up to MaxLen symbols over a small       *)
(* alphabet is accepted exactly when it matches the documented shape and     *)
(* range - stated here independently of the scanner (C09 on the spec).       *)
(***************************************************************************)
EXTENDS Parse
CONSTANT MaxLen
Alphabet == <<48, 49, 50, 54, 57, 45, 43, 58, 32, 90>>       \* 0 1 2 6 9 - + : space Z
VARIABLES inp, n
Init == inp = <<>> /\ n = 0
Next == n < MaxLen /\ \E k \in 1..Len(Alphabet) : inp' = Append(inp, Alphabet[k]) /\ n' = n + 1
Spec == Init /\ [][Next]_<<inp, n>>

Fmt(x) == <<37>> \o x
Accepts(fmt) == LET r == ParseResult(fmt, inp, <<>>, LAMBDA cs : SecondsOf(cs)) IN ~r.open /\ r.ok
RECURSIVE TrimL(_), TrimR(_)
TrimL(s) == IF s # <<>> /\ s[1] = 32 THEN TrimL(Tail(s)) ELSE s
TrimR(s) == IF s # <<>> /\ s[Len(s)] = 32 THEN TrimR(SubSeq(s, 1, Len(s) - 1)) ELSE s
Trim(s) == TrimR(TrimL(s))
Dig(c) == c >= 48 /\ c <= 57
AllDig(s) == s # <<>> /\ \A i \in 1..Len(s) : Dig(s[i])
Val(s) == DigitsVal(s, 1, Len(s) + 1)
\* %m: one or two digits, 1..12 (leading/trailing whitespace is always allowed)
MonthLaw == Accepts(Fmt(<<109>>)) = (LET t == Trim(inp) IN AllDig(t) /\ Len(t) <= 2 /\ Val(t) \in 1..12)
\* %H: one or two digits, 0..23
HourLaw == Accepts(Fmt(<<72>>)) = (LET t == Trim(inp) IN AllDig(t) /\ Len(t) <= 2 /\ Val(t) \in 0..23)
\* %S: 0..60 (60 is the leap second)
SecLaw == Accepts(Fmt(<<83>>)) = (LET t == Trim(inp) IN AllDig(t) /\ Len(t) <= 2 /\ Val(t) \in 0..60)
\* %E4Y: exactly four characters, -999 .. 9999
E4YLaw == Accepts(Fmt(<<69, 52, 89>>)) =
  (LET t == Trim(inp) IN Len(t) = 4 /\ (AllDig(t) \/ (t[1] = 45 /\ AllDig(Tail(t)) /\ Val(Tail(t)) # 0)))
\* %Y: an optional '-' and digits; "-0" is not a number
YearLaw == Accepts(Fmt(<<89>>)) =
  (LET t == Trim(inp) IN AllDig(t) \/ (Len(t) > 1 /\ t[1] = 45 /\ AllDig(Tail(t)) /\ Val(Tail(t)) # 0))
\* %z: Z | z | [+-]hh[mm[ss]] with hh 00-23 and mm, ss 00-59 (nothing else may follow)
Two(s, i, hi) == Len(s) >= i + 1 /\ Dig(s[i]) /\ Dig(s[i + 1]) /\ (s[i] - 48) * 10 + (s[i + 1] - 48) <= hi
OffLaw == Accepts(Fmt(<<122>>)) =
  (LET t == Trim(inp) IN
     \/ t = <<90>>
     \/ /\ Len(t) \in {3, 5, 7} /\ t[1] \in {43, 45} /\ Two(t, 2, 23)
        /\ (Len(t) >= 5 => Two(t, 4, 59)) /\ (Len(t) = 7 => Two(t, 6, 59)))
=============================================================================
