SPECIFICATION Spec
INVARIANTS MLaw JLaw NLaw InstantLaw
CHECK_DEADLOCK FALSE
