----------------------------- MODULE LoaderTrace -----------------------------
(***************************************************************************)
(* Binding of spec/Loader.tla to the real LoadTimeZone (harness/             *)
(* replay_loader.cc).                                                       *)
(*  LStep  : a behaviour of the model is re-executed action by action; after *)
(*           every action the state the harness observed (where the thread   *)
(*           is, who is inside the factory, factory calls per name, the      *)
(*           value returned and its identity) must equal the model's state.  *)
(*  Attack : the outcome of trying to force a behaviour of the unserialised  *)
(*           protocol: the C20 invariants on the factory observations.       *)
(*  S*     : a free-running history in a global order, checked event by      *)
(*           event against the same invariants (C13 Agree/SeqEquiv, C20).    *)
(***************************************************************************)
EXTENDS Loader, TraceCommon, Integers

TNames == {"a", "b", "c", "bad", "bad2", "fx", "fx2", "utc"}
TKind == [n \in TNames |-> CASE n \in {"a", "b", "c"} -> "good" [] n \in {"bad", "bad2"} -> "bad"
                             [] n \in {"fx", "fx2"} -> "fixed" [] OTHER -> "utc"]
TThreads == {"t1", "t2", "t3", "t4"}

VARIABLES l, bad, ids, sInFac, sCalled, sPending, sIds
tvars == <<l, bad, ids, sInFac, sCalled, sPending, sIds>>
allvars == <<vars, tvars>>

B01(b) == IF b THEN 1 ELSE 0
PcAt(p) == CASE p = "idle" -> -1 [] p = "check1" -> 0 [] p = "acqload" -> 1 [] p = "check2" -> 2
             [] p = "construct" -> 3 [] p = "insert" -> 4 [] p = "infactory" -> 10

ModelInit == /\ pc = [t \in Threads |-> "idle"]
             /\ cur = [t \in Threads |-> CHOOSE n \in Names : TRUE]
             /\ left = [t \in Threads |-> MaxCalls]
             /\ map = [n \in Names |-> NoneV]
             /\ loadLock = "free"
             /\ fresh = [t \in Threads |-> NullV]
             /\ inFactory = {}
             /\ calls = [n \in Names |-> 0]
             /\ facLog = {}
             /\ results = [t \in Threads |-> <<>>]
TInit == ModelInit /\ l = 1 /\ bad = 0 /\ ids = {<<0, UTC>>}
         /\ sInFac = {} /\ sCalled = {} /\ sPending = {} /\ sIds = {}

Ev == TraceLog[l]
ActOf(e) == CASE e.act = "Call" -> Call(e.t, e.n)
              [] e.act = "Check1" -> Check1(e.t)
              [] e.act = "AcqLoad" -> AcqLoad(e.t)
              [] e.act = "Check2" -> Check2(e.t)
              [] e.act = "Construct" -> Construct(e.t)
              [] e.act = "FactoryReturn" -> FactoryReturn(e.t)
              [] e.act = "Insert" -> Insert(e.t)
Functional(s) == \A x, y \in s : (x[1] = y[1]) = (x[2] = y[2])     \* a bijection between ids and impls
\* the harness's observation after the action equals the model's next state
ObsOK(e) ==
  /\ e.at = PcAt(pc'[e.t])
  /\ {x : x \in {e.infac[i] : i \in 1..Len(e.infac)}} = inFactory'
  /\ \A n \in Names : calls'[n] = (IF n \in DOMAIN e.calls THEN e.calls[n] ELSE 0)
  /\ e.overlap = 0 /\ e.wrongthread = 0
  /\ e.at = -1 => LET r == results'[e.t][Len(results'[e.t])] IN
                    /\ e.ret.ok = B01(r.ok) /\ e.ret.isutc = B01(r.impl = UTC)
                    /\ Functional(ids \cup {<<e.ret.id, r.impl>>})
\* the invariants of the model are re-checked on the state reached with the real code
ModelInvOK == FactoryOnce' /\ FactorySerial' /\ NoFactoryForFixed'

TLStep == /\ Ev.e = "LStep"
          /\ ActOf(Ev)
          /\ LET ok == ObsOK(Ev) /\ ModelInvOK IN
               /\ bad' = IF ok THEN bad ELSE bad + 1
               /\ IF ok THEN TRUE ELSE Reject(l, <<Ev.act, Ev.t>>)
          /\ ids' = IF Ev.at = -1 THEN ids \cup {<<Ev.ret.id, results'[Ev.t][Len(results'[Ev.t])].impl>>} ELSE ids
          /\ UNCHANGED <<sInFac, sCalled, sPending, sIds>>
TLBegin == /\ Ev.e = "LBegin"
           /\ pc' = [t \in Threads |-> "idle"] /\ cur' = cur /\ left' = [t \in Threads |-> MaxCalls]
           /\ map' = [n \in Names |-> NoneV] /\ loadLock' = "free" /\ fresh' = [t \in Threads |-> NullV]
           /\ inFactory' = {} /\ calls' = [n \in Names |-> 0] /\ facLog' = {} /\ results' = [t \in Threads |-> <<>>]
           /\ ids' = {<<0, UTC>>} /\ UNCHANGED <<bad, sInFac, sCalled, sPending, sIds>>
TSkip == /\ Ev.e \in {"LEnd"} /\ UNCHANGED <<vars, bad, ids, sInFac, sCalled, sPending, sIds>>
TAttack == /\ Ev.e = "Attack"
           /\ LET ok == Ev.overlap = 0 /\ Ev.maxcalls <= 1 /\ Ev.wrongthread = 0 /\ Ev.agree = 1 /\ Ev.okmismatch = 0 IN
                /\ bad' = IF ok THEN bad ELSE bad + 1
                /\ IF ok THEN TRUE ELSE Reject(l, "Attack")
           /\ UNCHANGED <<vars, ids, sInFac, sCalled, sPending, sIds>>

\* ---- free-running history ----
KOk(e) == (e.ok = 1) = (e.k \in {"good", "fixed", "utc"}) /\ (e.isutc = 1) = (e.k \in {"bad", "utc"})
TStress ==
  /\ Ev.e \in {"SCall", "SFacEnter", "SFacExit", "SRet", "SEnd"}
  /\ LET e == Ev
         ok == CASE e.e = "SFacEnter" -> /\ sInFac = {}                       \* serially
                                         /\ e.n \notin sCalled               \* once per name
                                         /\ <<e.th, e.n>> \in sPending       \* on the caller's thread
                                         /\ e.k \in {"good", "bad"}          \* never for UTC / fixed names
                [] e.e = "SRet" -> /\ KOk(e)
                                   /\ e.usebad = 0        \* answers on the shared value = single-threaded answers
                                   /\ <<e.th, e.n>> \in sPending
                                   \* all loads of one name yield the same value; different zones differ
                                   /\ \A x \in sIds : (x[1] = e.n) => x[2] = e.id
                                   /\ \A x \in sIds : (x[2] = e.id /\ e.isutc = 0) => x[1] = e.n
                [] OTHER -> TRUE
     IN /\ bad' = IF ok THEN bad ELSE bad + 1
        /\ IF ok THEN TRUE ELSE Reject(l, e.e)
        /\ sInFac' = CASE e.e = "SFacEnter" -> sInFac \cup {e.th} [] e.e = "SFacExit" -> sInFac \ {e.th}
                       [] e.e = "SEnd" -> {} [] OTHER -> sInFac
        /\ sCalled' = CASE e.e = "SFacEnter" -> sCalled \cup {e.n} [] e.e = "SEnd" -> {} [] OTHER -> sCalled
        /\ sPending' = CASE e.e = "SCall" -> sPending \cup {<<e.th, e.n>>}
                         [] e.e = "SRet" -> sPending \ {<<e.th, e.n>>} [] e.e = "SEnd" -> {} [] OTHER -> sPending
        /\ sIds' = CASE e.e = "SRet" -> sIds \cup {<<e.n, e.id>>} [] e.e = "SEnd" -> {} [] OTHER -> sIds
  /\ UNCHANGED <<vars, ids>>

\* one loaded value used by many threads at once: every answer equalled the single-threaded reference
THammer == /\ Ev.e = "SHammer"
           /\ LET ok == Ev.bad = 0 IN
                /\ bad' = IF ok THEN bad ELSE bad + 1
                /\ IF ok THEN TRUE ELSE Reject(l, "SHammer")
           /\ UNCHANGED <<vars, ids, sInFac, sCalled, sPending, sIds>>
\* the first calls of a process, made by several threads at once: one UTC value for all, failures fail for all
TFirstUse == /\ Ev.e = "FirstUse"
             /\ LET ok == Ev.equal = 1 /\ Ev.badok = 1 IN
                  /\ bad' = IF ok THEN bad ELSE bad + 1
                  /\ IF ok THEN TRUE ELSE Reject(l, "FirstUse")
             /\ UNCHANGED <<vars, ids, sInFac, sCalled, sPending, sIds>>
\* a factory that loads the name it was asked for itself: one value for the nested call, the outer call and every later one;
\* a factory that throws: the exception reaches the caller and the loader keeps serialising factory calls afterwards
\* threads still loading while the process exits: every load keeps returning the value (and verdict) obtained before
TDirected == /\ Ev.e \in {"Reentrant", "AfterThrow", "AtExit"}
             /\ LET ok == IF Ev.e = "Reentrant" THEN Ev.same = 1 ELSE IF Ev.e = "AtExit" THEN Ev.bad = 0 ELSE (Ev.threw = 1 /\ Ev.overlap = 0) IN
                  /\ bad' = IF ok THEN bad ELSE bad + 1
                  /\ IF ok THEN TRUE ELSE Reject(l, Ev.e)
             /\ UNCHANGED <<vars, ids, sInFac, sCalled, sPending, sIds>>
TNext == l <= TraceLen /\ l' = l + 1 /\ (TLStep \/ TLBegin \/ TSkip \/ TAttack \/ TStress \/ THammer \/ TFirstUse \/ TDirected)
TSpec == TInit /\ [][TNext]_allvars
=============================================================================
