SPECIFICATION FairSpec
CONSTANTS
  Threads = {"t1", "t2"}
  Names <- MCNames
  Kind <- MCKind
  MaxCalls = 2
  SerializeLoads = TRUE
INVARIANTS TypeOK FactoryOnce FactorySerial NoFactoryForFixed Agree SeqEquiv LoadLockHeld
PROPERTIES Sticky AllReturn
CHECK_DEADLOCK FALSE
