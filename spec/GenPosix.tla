------------------------------ MODULE GenPosix ------------------------------
(***************************************************************************)
(* spec -> impl for C16: TLC enumerates the sentences of the POSIX-TZ        *)
(* grammar over small sets of alternatives for every component (each set     *)
(* holds the documented forms at and just beyond their bounds) - the full    *)
(* product, so that every combination of optional parts present/absent is    *)
(* exercised - and writes them out; the harness feeds them to the real       *)
(* ParsePosixSpec and PosixTrace compares verdict and fields with            *)
(* PosixTZ!ParseSpec.  Full = IOEnv.FULL = "1" selects the larger sets.      *)
(***************************************************************************)
EXTENDS PosixTZ, Json, IOUtils, TLC
Full == IOEnv.FULL = "1"
S(str) == str
Abbrs == {<<69, 83, 84>>, <<60, 43, 48, 53, 62>>, <<65, 66>>, <<60, 62>>} \cup
         (IF Full THEN {<<88, 89, 90, 87>>, <<65, 49, 66>>, <<60, 65, 66>>} ELSE {})          \* EST <+05> AB <> | XYZW A1B <AB
Offs == {<<53>>, <<45, 53, 58, 51, 48>>, <<50, 52>>, <<50, 53>>, <<>>} \cup
        (IF Full THEN {<<43, 49, 58, 54, 48>>, <<48, 58, 48, 58, 53, 57>>, <<53, 58>>} ELSE {})    \* 5 -5:30 24 25 "" | +1:60 0:0:59 5:
Dsts == {<<69, 68, 84>>, <<60, 45, 48, 50, 62>>, <<68, 84>>} \cup (IF Full THEN {<<60, 62>>} ELSE {})   \* EDT <-02> DT | <>
DOffs == {<<>>, <<52>>, <<50, 53>>} \cup (IF Full THEN {<<45, 49, 58, 51, 48>>} ELSE {})           \* "" 4 25 | -1:30
Dates == {<<77, 51, 46, 50, 46, 48>>, <<74, 49>>, <<74, 51, 54, 54>>, <<48>>, <<51, 54, 53>>, <<77, 49, 51, 46, 49, 46, 48>>, <<77, 49, 46, 49>>, <<>>} \cup
         (IF Full THEN {<<74, 48>>, <<51, 54, 54>>, <<77, 49, 46, 53, 46, 54>>, <<77, 49, 46, 54, 46, 48>>, <<77, 49, 46, 49, 46, 55>>} ELSE {})
Times == {<<>>, <<47, 50>>, <<47, 45, 49, 54, 55>>, <<47, 49, 54, 56>>, <<47>>} \cup (IF Full THEN {<<47, 50, 58, 54, 48>>, <<47, 43, 50, 54, 58, 51, 48, 58, 49, 53>>} ELSE {})
Trails == {<<>>, <<32>>, <<44>>} \cup (IF Full THEN {<<0>>, <<47, 50>>} ELSE {})
StdOnly == {a \o o \o t : a \in Abbrs, o \in Offs, t \in Trails}
WithDst == {a \o o \o d \o p \o <<44>> \o d1 \o t1 \o <<44>> \o d2 \o t2 \o t :
              a \in {<<69, 83, 84>>, <<60, 43, 48, 53, 62>>}, o \in {<<53>>, <<45, 53, 58, 51, 48>>}, d \in Dsts, p \in DOffs,
              d1 \in Dates, t1 \in Times, d2 \in Dates, t2 \in Times, t \in Trails}
\* structural near misses: a rule dropped, a comma dropped, a third rule
Near == {<<69, 83, 84, 53>> \o d \o p \o x : d \in Dsts, p \in DOffs,
           x \in {<<>>, <<44>> \o <<74, 49>>, <<44, 44>>, <<74, 49, 44, 74, 50>>, <<44, 74, 49, 44, 74, 50, 44, 74, 51>>, <<44, 74, 49, 74, 50>>}}
All == StdOnly \cup WithDst \cup Near
\* one state per sentence; each is printed once (with the verdict the specification assigns, for the record)
VARIABLE s
Init == s \in All
Next == UNCHANGED s
Spec == Init /\ [][Next]_s
Emit == PrintT("SENT " \o ToJson([s |-> s, ok |-> ParseSpec(s).ok]))
=============================================================================
