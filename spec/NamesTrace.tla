----------------------------- MODULE NamesTrace -----------------------------
(* Trace validation for harness/drv_names.cc (C19): one process per environment.                   *)
(* Resolve events: {env{tzdir,tz,localtime}, name, ok, tzname, isutc, look[...], fs[{path,kind,bytes}]} *)
EXTENDS Names, Zone, TraceCommon
RealTMin == <<-1, 5808, 5477, 368, 3372, 922>>
RealTMax == <<1, 5807, 5477, 368, 3372, 922>>
RealBigBang == <<-1, 3488, 342, 7523, 6460, 57>>
VARIABLES l, bad
vars == <<l, bad>>
B01(b) == IF b THEN 1 ELSE 0
UTCLook(x) == x.cs = FromSeconds(x.t) /\ x.off = 0 /\ x.dst = 0 /\ x.abbr = UTCName
AllLooks(e, P(_)) == \A i \in 1..Len(e.look) : P(e.look[i])
Entry(e, path) == LET s == {i \in 1..Len(e.fs) : e.fs[i].path = path} IN
                  IF s = {} THEN [kind |-> "unknown"] ELSE e.fs[CHOOSE i \in s : TRUE]
FailsWithUTC(e) == e.ok \in {0, -1} /\ e.isutc = 1 /\ e.tzname = UTCName /\ AllLooks(e, UTCLook)
\* what load_time_zone(name) must do in environment e.env
OkLoad(e, name) ==
  LET f == NameToOffset(name) IN
  IF f.ok THEN     \* resolved internally, no data consulted
    /\ e.ok \in {1, -1} /\ e.isutc = B01(f.off = 0) /\ e.tzname = (IF f.off = 0 THEN UTCName ELSE name)
    /\ AllLooks(e, LAMBDA x : x.cs = FromSeconds(x.t \oplus W(f.off)) /\ x.off = f.off /\ x.dst = 0 /\ x.abbr = OffsetToAbbr(f.off))
  ELSE IF StartsWith(name, LibcPrefix) \/ (\E i \in 1..Len(name) : name[i] = 0) THEN TRUE     \* not covered
  ELSE LET ent == Entry(e, PathOf(e.env, name)) IN
    CASE ent.kind \in {"absent", "dir", "unreadable"} -> FailsWithUTC(e)
      [] ent.kind = "file" ->
           LET D == Decode(ent.bytes) IN
           IF ~StructOk(D) THEN ((~D.ok \/ D.cut) => FailsWithUTC(e))   \* truncated (also inside the footer) / not TZif: must fail; odd structure: open
           ELSE IF D.leapcnt # 0 THEN FailsWithUTC(e)             \* leap-second ("right") data is rejected
           ELSE LET Z == MkZone(D) IN
                IF Z.rule.kind = "bad" THEN FailsWithUTC(e)
                ELSE (TimesInZicRange(D) /\ WellFormed(Z)) =>
                       /\ e.ok \in {1, -1} /\ e.isutc = 0 /\ e.tzname = name    \* a loaded zone reports the requested name
                       /\ AllLooks(e, LAMBDA x : LET b == Break(Z, x.t) IN
                                       x.cs = b.cs /\ x.off = b.off /\ x.dst = B01(b.dst) /\ x.abbr = b.abbr)
      [] OTHER -> TRUE                                            \* the harness did not record this path
OkResolve(e) == OkLoad(e, e.name)
\* local_time_zone(): the same load applied to LocalName(env); failure falls back to UTC silently
\* (local_time_zone() has no success flag: the event carries ok = -1, "not observable")
OkLocal(e) == e.ok = -1 /\ OkLoad(e, LocalName(e.env))
OkDefault(e) == e.eq = 1 /\ AllLooks(e, UTCLook)
Allowed(e) == CASE e.e = "Resolve" -> OkResolve(e) [] e.e = "Local" -> OkLocal(e) [] e.e = "Default" -> OkDefault(e) [] OTHER -> FALSE
Init == l = 1 /\ bad = 0
Next == /\ l <= TraceLen
        /\ l' = l + 1
        /\ LET ok == Allowed(TraceLog[l]) IN
             /\ bad' = IF ok THEN bad ELSE bad + 1
             /\ IF ok THEN TRUE ELSE Reject(l, TraceLog[l].e)
Spec == Init /\ [][Next]_vars
=============================================================================
