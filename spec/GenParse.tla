------------------------------ MODULE GenParse ------------------------------
(* spec -> impl: which specifiers of each format the specification delegates to strptime. *)
EXTENDS Parse, Json, IOUtils
RECURSIVE S2Q(_)
S2Q(S) == IF S = {} THEN <<>> ELSE LET x == CHOOSE x \in S : TRUE IN <<x>> \o S2Q(S \ {x})
In == ndJsonDeserialize(IOEnv.FORMATS)
ASSUME ndJsonSerialize(IOEnv.OUT, [i \in 1..Len(In) |-> [fmt |-> In[i].fmt, del |-> S2Q(DelegSpecs(In[i].fmt, 1))]])
=============================================================================
