----------------------------- MODULE PosixTrace -----------------------------
(* Trace validation for harness/drv_posix.cc (C16): verdict and every promised field of         *)
(* ParsePosixSpec against PosixTZ!ParseSpec, for both pre-fill patterns of the result struct.   *)
EXTENDS PosixTZ, TraceCommon
VARIABLES l, bad
vars == <<l, bad>>
FmtCode(f) == CASE f = FmtJ -> 0 [] f = FmtN -> 1 [] f = FmtM -> 2 [] OTHER -> -1
SameRule(r, x) == /\ x.fmt = FmtCode(r.date.fmt) /\ x.a = r.date.a /\ x.b = r.date.b /\ x.c = r.date.c
                  /\ x.time = r.time
OkPosix(e) ==
  /\ e.ub = 0
  /\ Unconstrained(e.s) \/
     LET p == ParseSpec(e.s) IN
     /\ e.ok = (IF p.ok THEN 1 ELSE 0)
     /\ p.ok => /\ e.std_abbr = p.std_abbr /\ e.std_off = p.std_off
                /\ e.dst_abbr = p.dst_abbr
                \* with a dst part (the abbreviation may be the empty <>): offset, both dates and both times are determined
                /\ (p.hasdst /\ p.dst_abbr # <<>>) =>
                      (e.dst_off = p.dst_off /\ SameRule(p.start, e.start) /\ SameRule(p.end, e.end))
Init == l = 1 /\ bad = 0
Next == /\ l <= TraceLen
        /\ l' = l + 1
        /\ LET ok == OkPosix(TraceLog[l]) IN
             /\ bad' = IF ok THEN bad ELSE bad + 1
             /\ IF ok THEN TRUE ELSE Reject(l, TraceLog[l].e)
Spec == Init /\ [][Next]_vars
=============================================================================
