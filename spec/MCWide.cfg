SPECIFICATION Spec
INVARIANT OK
CHECK_DEADLOCK FALSE
