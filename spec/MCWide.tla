------------------------------ MODULE MCWide ------------------------------
(* Small-scope model check of Wide against TLC's native integers: every     *)
(* operation on every pair from a set of values concentrated around the     *)
(* limb boundaries (10^4, 10^8) and zero.                                   *)
EXTENDS Wide, TLC
Near(c) == (c - 2)..(c + 2)
Vals == Near(0) \cup Near(9999) \cup Near(-9999) \cup Near(20000) \cup Near(-20000)
        \cup Near(100000000) \cup Near(-100000000) \cup Near(99990000) \cup {146097, -146097, 86400, 719468, 12345678, -87654321}
Ks == {1, 2, 7, 12, 24, 60, 400, 9999, 10000, 10001, 86400, 146097, 200000}
RECURSIVE Pow2(_)
Pow2(n) == IF n = 0 THEN W(1) ELSE WMulSmall(Pow2(n - 1), 2)
ASSUME WDec(I64Min) = <<45, 57,50,50,51,51,55,50,48,51,54,56,53,52,55,55,53,56,48,56>> /\ WDec(W(0)) = <<48>> /\ WDec(W(-10001)) = <<45,49,48,48,48,49>> /\ WDecPad(W(7), 3) = <<48,48,55>> /\ Pow10(15) = WMul(Pow10(8), Pow10(7)) /\ WDec(Pow10(5)) = <<49,48,48,48,48,48>>
ASSUME I64Max = Pow2(63) \ominus W(1) /\ I64Min = WNeg(Pow2(63))
VARIABLES a, b
Init == a \in Vals /\ b \in Vals
Next == UNCHANGED <<a, b>>
Spec == Init /\ [][Next]_<<a, b>>
Sign(x) == IF x < 0 THEN -1 ELSE IF x > 0 THEN 1 ELSE 0
OK == /\ IsWide(W(a)) /\ WInt(W(a)) = a
      /\ IsWide(W(a) \oplus W(b)) /\ WInt(W(a) \oplus W(b)) = a + b
      /\ IsWide(W(a) \ominus W(b)) /\ WInt(W(a) \ominus W(b)) = a - b
      /\ WCmp(W(a), W(b)) = Sign(a - b)
      /\ (W(a) \prec W(b)) = (a < b) /\ (W(a) \preceq W(b)) = (a <= b)
      /\ WNeg(W(a)) = W(-a)
      /\ \A k \in Ks : /\ LET qr == WDivMod(W(a), k) IN IsWide(qr[1]) /\ WInt(qr[1]) = a \div k /\ qr[2] = a % k
                       /\ LET qr == WQuotRem(W(a), k) IN
                              /\ WInt(qr[1]) = Sign(a) * ((Sign(a) * a) \div k)
                              /\ qr[2] = Sign(a) * ((Sign(a) * a) % k)
      /\ \A k \in {0, 1, -1, 7, -12, 21} : IsWide(WMulSmall(W(a), k)) /\ WInt(WMulSmall(W(a), k)) = a * k
      /\ (a \in -40000..40000 /\ b \in -40000..40000) => WInt(WMul(W(a), W(b))) = a * b
      \* identities on values too large for native ints
      /\ LET big == WMulSmall(WMulSmall(W(a), 146097), 86400) IN
           /\ IsWide(big) /\ WDivMod(big, 86400) = <<WMulSmall(W(a), 146097), 0>>
           /\ WDivMod(big \oplus W(b % 86400), 86400) = <<WMulSmall(W(a), 146097), b % 86400>>
           /\ (big \oplus W(b)) \ominus big = W(b)
           /\ WMul(WMulSmall(W(a), 146097), W(86400)) = big
      /\ WDec(W(a)) = WDec(W(a)) /\ Len(WDec(W(a))) >= 1
      /\ (b # 0) => LET k == IF b < 0 THEN -b ELSE b  r == WFloorDiv(W(a), W(k)) IN WInt(r[1]) = a \div k /\ WInt(r[2]) = a % k
      /\ InI64(I64Max) /\ InI64(I64Min) /\ ~InI64(I64Max \oplus W(1)) /\ ~InI64(I64Min \ominus W(1))
      /\ IsWide(I64Max) /\ IsWide(I64Min) /\ I64Max \oplus I64Min = W(-1)
=============================================================================
