SPECIFICATION Spec
CONSTANTS
  TMin <- RealTMin
  TMax <- RealTMax
  BigBangT <- RealBigBang
  Sentinel32 <- RealSentinel
  YearStep = 7
INVARIANTS BreakRefines MakeRefines
CHECK_DEADLOCK FALSE
