SPECIFICATION Spec
CONSTANTS
  Threads = {"t1", "t2"}
  Names <- MCNames2
  Kind <- MCKind2
  MaxCalls = 2
  SerializeLoads = TRUE
INVARIANTS TypeOK
CHECK_DEADLOCK FALSE
