----------------------------- MODULE SplitTrace -----------------------------
(* Trace validation for harness/drv_split.cc (C18). *)
EXTENDS Split, CivilTime, TraceCommon
VARIABLES l, bad
vars == <<l, bad>>
Bar == <<124>>
D2(v) == <<48 + (v \div 10), 48 + (v % 10)>>
OkSplit(e) == LET s == SplitSeconds(e.c, e.num, e.den) IN e.ub = 0 /\ e.sec = s[1] /\ e.sub = s[2]
OkLookupD(e) == LET s == SplitSeconds(e.c, e.num, e.den) IN
                e.ub = 0 /\ e.cs = FromSeconds(s[1]) /\ e.cs2 = e.cs
\* "%s|%E15f|%E3f|%E*f|%E0f|%S|%E2S"
OkFormatD(e) ==
  LET s == SplitSeconds(e.c, e.num, e.den)
      fs == Femtos(s[2], e.den)
      ss == FromSeconds(s[1])[6]
  IN  /\ e.ub = 0
      /\ e.out = WDec(s[1]) \o Bar \o FracDigits(fs, 15) \o Bar \o FracDigits(fs, 3) \o Bar \o FracStar(fs) \o Bar
                   \o Bar \o D2(ss) \o Bar \o D2(ss) \o <<46>> \o FracDigits(fs, 2)
                   \* more digits than femtoseconds (zeros on the right), and several fractional fields in one format
                   \o Bar \o FracDigits(fs, 16) \o Bar \o D2(ss) \o <<46>> \o FracDigits(fs, 18)
                   \o Bar \o FracDigits(fs, 1) \o <<32>> \o D2(ss) \o (IF fs = WZero THEN <<>> ELSE <<46>> \o FracStar(fs)) \o <<32>> \o FracDigits(fs, 6)
\* format then parse into the same representation recovers the count (sub-second: ticks are exact
\* multiples only when Den divides 10^15; the 1/3-second type floors to the tick at or below)
OkParseBack(e) ==
  LET s == SplitSeconds(e.c, e.num, e.den)
      fs == Femtos(s[2], e.den)
      j == JoinSeconds(s[1], fs, e.bits, e.num, e.den)
      \* sub-second targets are only required to work inside their own range: the whole-second part
      \* alone must be representable (time_zone.h, TODO(#199) is outside the property)
      inside == e.den = W(1) \/ (WLe(RepMin(e.bits), WMul(s[1], e.den)) /\ WLe(WMul(s[1] \oplus W(1), e.den), RepMax(e.bits)))
  IN  inside => (e.ub = 0 /\ e.ok = (IF j.ok THEN 1 ELSE 0) /\ (j.ok => e.back = j.count))
OkJoin(e) == LET j == JoinSeconds(e.sec, e.fs, e.bits, e.num, e.den) IN
  /\ e.ub = 0
  \* whole seconds or coarser: floor, and failure instead of wrapping when the count does not fit
  /\ e.den = W(1) => (e.ok = (IF j.ok THEN 1 ELSE 0) /\ (j.ok => e.c = j.count))
  \* sub-second targets: only inside their own range (the driver stays inside)
  /\ e.den # W(1) => (j.ok => (e.ok = 1 /\ e.c = j.count))
\* a text at distance `delta` seconds from the upper (hi = 1) or lower limit of time_point<seconds>: beyond it parse fails, at or
\* inside it the instant is returned - independently of the zone handed to parse (the text carries its own offset)
OkParseLimit(e) == /\ e.ub = 0
                   /\ e.delta > 0 => e.ok = 0
                   /\ e.delta <= 0 => (e.ok = 1 /\ e.c = (IF e.hi = 1 THEN RepMax(64) \oplus W(e.delta) ELSE RepMin(64) \ominus W(e.delta)))
\* tick periods num/den with num # 1 # den: the whole second at or below the instant, floor(c * num / den)
OkLookupQ(e) == LET sec == WFloorDiv(WMulSmall(e.c, e.num), e.den)[1]  civ == FromSeconds(sec) IN
                e.ub = 0 /\ e.cs = civ /\ e.cs2 = civ /\ e.out = WDec(sec) \o Bar \o D2(civ[6])
Allowed(e) == CASE e.e = "LookupQ" -> OkLookupQ(e) [] e.e = "ParseLimit" -> OkParseLimit(e) [] e.e = "Split" -> OkSplit(e) [] e.e = "LookupD" -> OkLookupD(e) [] e.e = "FormatD" -> OkFormatD(e)
                [] e.e = "ParseBack" -> OkParseBack(e) [] e.e = "Join" -> OkJoin(e) [] e.e = "ParseD" -> OkJoin(e)
                [] OTHER -> FALSE
Init == l = 1 /\ bad = 0
Next == /\ l <= TraceLen
        /\ l' = l + 1
        /\ LET ok == Allowed(TraceLog[l]) IN
             /\ bad' = IF ok THEN bad ELSE bad + 1
             /\ IF ok THEN TRUE ELSE Reject(l, TraceLog[l].e)
Spec == Init /\ [][Next]_vars
=============================================================================
