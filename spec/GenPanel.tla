------------------------------ MODULE GenPanel ------------------------------
(* spec -> impl: for each zone file (bytes) the specification itself computes where its       *)
(* rule-generated changes are - in the years just after the recorded data, one and two 400-   *)
(* year cycles later, and far out to the end of the representable range (every year of the    *)
(* first cycle in the thorough tier) - so that the driver probes the real code exactly there.  *)
EXTENDS Zone, Json, IOUtils
RealTMin == <<-1, 5808, 5477, 368, 3372, 922>>
RealTMax == <<1, 5807, 5477, 368, 3372, 922>>
RealBigBang == <<-1, 3488, 342, 7523, 6460, 57>>
RECURSIVE S2Q(_)
S2Q(S) == IF S = {} THEN <<>> ELSE LET x == CHOOSE x \in S : TRUE IN <<x>> \o S2Q(S \ {x})
In == ndJsonDeserialize(IOEnv.ZONES)
Thorough == IOEnv.PANEL = "thorough"
YMax == UtcYear(TMax) \ominus W(6)
Centers(Z) ==
  LET y0 == UtcYear(LastAt(Z))
      kmax == WDiv((YMax \ominus y0) \ominus W(410), 400)       \* wide
      far == {y0 \oplus W(400 * 1000 + 401), y0 \oplus WMulSmall(W(400 * 1000), 1000) \oplus W(401),
              (y0 \oplus WMulSmall(kmax, 400)) \oplus W(401), (y0 \oplus WMulSmall(kmax, 400)) \oplus W(3)}
      near == IF Thorough THEN {y0 \oplus W(3 + 6 * i) : i \in 0..69} \cup {y0 \oplus W(801)}
              ELSE {y0 \oplus W(3), y0 \oplus W(401), y0 \oplus W(801)}
  IN  near \cup {y \in far : y \prec YMax} \cup {UtcYear(TMax) \ominus W(2)}       \* ... and the very last years
PanelOf(b) ==
  LET D == Decode(b) IN
  IF ~StructOk(D) THEN <<>>
  ELSE LET Z == MkZone(D) IN
       IF Z.rule.kind # "dst" THEN <<>>
       ELSE S2Q({t \in UNION {{RuleCtx(Z, y).seq[i].at : i \in 1..Len(RuleCtx(Z, y).seq)} : y \in Centers(Z)} : TMin \prec t /\ t \prec TMax})
ASSUME ndJsonSerialize(IOEnv.OUT, [i \in 1..Len(In) |-> [name |-> In[i].name, t |-> PanelOf(In[i].bytes)]])
=============================================================================
