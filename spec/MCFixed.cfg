SPECIFICATION Spec
INVARIANTS RoundTrip Shape
CHECK_DEADLOCK FALSE
