SPECIFICATION Spec
CONSTANT MaxLen = 4
INVARIANTS MonthLaw HourLaw SecLaw E4YLaw YearLaw OffLaw
CHECK_DEADLOCK FALSE
