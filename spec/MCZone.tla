------------------------------- MODULE MCZone -------------------------------
(***************************************************************************)
(* Small worlds: TLC builds every zone with at most MaxTrans transitions    *)
(* on a grid of instants within a few seconds of the epoch, types drawn     *)
(* from a palette, any default type and an optional "big bang" entry, and   *)
(* checks on each one the listed properties of the specification itself:    *)
(*   C02  Make's kind is the number of instants that display cs (counted by *)
(*        brute force over the whole window) and pre/trans/post obey the    *)
(*        header's inequalities;                                            *)
(*   C03  round trip both ways;  C06 order preservation;                    *)
(*   C10  totality and saturation (TMin/TMax may lie inside the window);    *)
(*   C11  the change chain partitions the time line into constant pieces.   *)
(* With Export = TRUE every zone is also printed with the answers the       *)
(* specification assigns (spec -> impl replay by harness/replay_zone.cc).   *)
(***************************************************************************)
EXTENDS Zone, TLC, Json
SmallTMin == W(-15)
SmallTMax == W(13)
SmallBigBang == W(-14)
GridA == {-9, -5, -4, 0, 3, 4, 9}
GridB == {-11, -8, -5, -4, -1, 0, 3, 4, 8, 11}
WinLoV == -16
BBSmall == -14
RealTMin == I64Min
RealTMax == I64Max
RealBigBang == WNeg(Pow2_59)

CONSTANTS Palettes,     \* set of palette numbers to explore
          Grid,         \* candidate transition instants (native ints, ascending order irrelevant)
          MaxTrans,     \* at most this many transitions besides the optional big-bang entry
          WinLo, WinHi, \* window of instants that is examined exhaustively
          Export, Shard, NShards,
          BBNative      \* the big-bang instant as a native int (0 = use the real -2^59, export mode)

Palette(p) ==
  CASE p = 1 -> <<TypeRec(0, FALSE, <<65>>), TypeRec(2, TRUE, <<66>>), TypeRec(-3, FALSE, <<67>>)>>
    [] p = 2 -> <<TypeRec(0, FALSE, <<65>>), TypeRec(0, TRUE, <<65>>), TypeRec(0, FALSE, <<66>>)>>    \* isdst-only / abbr-only
    [] p = 3 -> <<TypeRec(5, TRUE, <<65>>), TypeRec(-1, FALSE, <<66>>), TypeRec(2, FALSE, <<66>>)>>   \* type 0 is DST
    [] p = 4 -> <<TypeRec(0, FALSE, <<65>>), TypeRec(2, TRUE, <<66>>), TypeRec(0, FALSE, <<65>>)>>    \* duplicate type
    [] p = 5 -> <<TypeRec(-3, FALSE, <<65>>), TypeRec(5, TRUE, <<66>>), TypeRec(2, FALSE, <<67>>)>>
    [] p = 6 -> <<TypeRec(0, FALSE, <<65>>), TypeRec(2, TRUE, <<66>>), TypeRec(0, FALSE, <<67>>)>>    \* a designation-only change beside offset changes

VARIABLES pal, bb, tr, done
\* pal: palette; bb: 0 = no big-bang entry, k = big-bang entry introducing type k;
\* tr: sequence of <<instant (native), type 1..3>>; done: zone complete (checked/exported)
vars == <<pal, bb, tr, done>>

Init == /\ pal \in Palettes /\ bb \in 0..3 /\ tr = <<>> /\ done = FALSE
        /\ (pal * 4 + bb) % NShards = Shard
AddTransition == /\ ~done /\ Len(tr) < MaxTrans
                 /\ \E t \in Grid, k \in 1..3 :
                      /\ IF tr = <<>> THEN TRUE ELSE tr[Len(tr)][1] < t
                      /\ tr' = Append(tr, <<t, k>>)
                 /\ UNCHANGED <<pal, bb, done>>
Finish == /\ ~done /\ done' = TRUE /\ UNCHANGED <<pal, bb, tr>>
Next == AddTransition \/ Finish
Spec == Init /\ [][Next]_vars

\* ---- the zone value (same shape as Zone!MkZone produces) ----
BBInstant == IF BBNative = 0 THEN BigBangT ELSE W(BBNative)
AllTr == IF bb = 0 THEN tr ELSE <<<<0, bb>>>> \o tr            \* instant of the bb entry handled below
\* default type as the tzcode heuristic gives it (TZif!DefaultType on the equivalent decoded data)
DD == [timecnt |-> Len(AllTr), typecnt |-> 3,
       tidx |-> [k \in 1..Len(AllTr) |-> AllTr[k][2] - 1],
       types |-> [k \in 1..3 |-> [dst |-> Palette(pal)[k].dst]]]
Z == LET types == Palette(pal)
         n == Len(AllTr)
         at == [k \in 1..n |-> IF bb # 0 /\ k = 1 THEN BBInstant ELSE W(AllTr[k][1])]
         ty == [k \in 1..n |-> AllTr[k][2]]
         dflt == DefaultType(DD) + 1
         before(k) == IF k = 1 THEN types[dflt] ELSE types[ty[k - 1]]
     IN  [n |-> n, at |-> at, ty |-> ty, types |-> types, dflt |-> dflt,
          real |-> [k \in 1..n |-> ~Equiv(before(k), types[ty[k]]) /\ BigBangT \prec at[k]],
          rule |-> [kind |-> "none"], rt |-> <<>>]

Win == WinLo..WinHi
CivOf(t) == FromSeconds(W(t))                    \* the civil second that UTC shows at native instant t
CivWin == {CivOf(t) : t \in (WinLo - 6)..(WinHi + 6)}
Cl(t) == WInt(Clamp(W(t)))

\* C02: kind = number of instants displaying cs (brute force over a window that certainly contains them)
Shows(z, cs) == {t \in (WinLo - 12)..(WinHi + 12) : Break(z, W(t)).cs = cs}
\* the premise of C02/C03/C06/C10: offset changes farther apart than the sum of their sizes - in the reading that also
\* constrains designation-only entries (WellFormed, what the exported zones use) or literally (WellFormedD, palette 6)
Premise(z) == WellFormed(z) \/ WellFormedD(z)
C02 == done => LET z == Z IN Premise(z) => \A cs \in CivWin :
         LET m == Make(z, cs)  P == Shows(z, cs) IN
         /\ m.kind \in {"UNIQUE", "SKIPPED", "REPEATED"}
         /\ (m.kind = "UNIQUE") = (Cardinality(P) = 1)
         /\ (m.kind = "SKIPPED") = (Cardinality(P) = 0)
         /\ (m.kind = "REPEATED") = (Cardinality(P) = 2)
         /\ m.kind = "UNIQUE" => \A t \in P : m.pre = W(Cl(t)) /\ m.trans = m.pre /\ m.post = m.pre
         /\ m.kind = "REPEATED" => {WInt(m.pre), WInt(m.post)} = {Cl(t) : t \in P}
         /\ m.kind = "SKIPPED" => (m.post \preceq m.trans /\ m.trans \preceq m.pre)
         /\ m.kind = "REPEATED" => (m.pre \preceq m.trans /\ m.trans \preceq m.post)
\* C03
C03 == done => LET z == Z IN Premise(z) => \A t \in Win :
         (TMin \prec W(t) /\ W(t) \prec TMax) =>
           LET m == Make(z, Break(z, W(t)).cs) IN
           \/ m.kind = "UNIQUE" /\ m.pre = W(t)
           \/ m.kind = "REPEATED" /\ (m.pre = W(t) \/ m.post = W(t))
\* C06: order preservation on adjacent civil seconds (hence on all pairs)
C06 == done => LET z == Z IN Premise(z) => \A t \in (WinLo - 6)..(WinHi + 5) :
         Convert(z, CivOf(t)) \preceq Convert(z, CivOf(t + 1))
\* C10: saturation - every answer lies inside the representable range
C10 == done => LET z == Z IN Premise(z) => \A cs \in CivWin :
         LET m == Make(z, cs) IN
         /\ TMin \preceq m.pre /\ m.pre \preceq TMax /\ TMin \preceq m.post /\ m.post \preceq TMax
         /\ TMin \preceq m.trans /\ m.trans \preceq TMax
\* C11: real changes partition the window into pieces on which the displayed type is constant
\* (the big-bang instant itself is a sentinel, never a reported change)
Shown(z, t) == LET b == Break(z, W(t)) IN <<b.off, b.dst, b.abbr>>
C11 == done => LET z == Z IN \A t \in WinLo..(WinHi - 1) :
         (bb = 0 \/ W(t + 1) # BBInstant) =>
           LET k == NextRecorded(z, W(t)) IN
           (Shown(z, t) # Shown(z, t + 1)) = (k # 0 /\ z.at[k] = W(t + 1))

\* ---- export: the zone and the answers the specification assigns ----
N(w) == WInt(w)
CsN(cs) == <<N(cs[1]), cs[2], cs[3], cs[4], cs[5], cs[6]>>
TrJ(z, c) == LET x == TrCivil(z, c) IN [from |-> CsN(x[1]), to |-> CsN(x[2])]
NextJ(z, t) == LET k == NextRecorded(z, W(t)) IN IF k = 0 THEN [ok |-> 0] ELSE [ok |-> 1] @@ TrJ(z, z.at[k])
PrevJ(z, t) == LET k == PrevRecorded(z, W(t)) IN IF k = 0 THEN [ok |-> 0] ELSE [ok |-> 1] @@ TrJ(z, z.at[k])
MakeJ(z, cs) == LET m == Make(z, cs) IN
  IF m.kind = "ILLFORMED" THEN [kind |-> m.kind] ELSE [kind |-> m.kind, pre |-> N(m.pre), trans |-> N(m.trans), post |-> N(m.post)]
ExportLine == LET z == Z  wf == WellFormed(z) IN
  [pal |-> pal, bb |-> bb, tr |-> tr, wf |-> wf, dflt |-> z.dflt - 1,
   types |-> [k \in 1..3 |-> [off |-> Palette(pal)[k].off, dst |-> Palette(pal)[k].dst, abbr |-> Palette(pal)[k].abbr]],
   B |-> [i \in 1..(WinHi - WinLo + 1) |-> LET t == WinLo + i - 1  b == Break(z, W(t)) IN
            [t |-> t, cs |-> CsN(b.cs), off |-> b.off, dst |-> b.dst, abbr |-> b.abbr]],
   M |-> IF wf THEN [i \in 1..(WinHi - WinLo + 13) |-> LET cs == CivOf(WinLo - 7 + i) IN [cs |-> CsN(cs)] @@ MakeJ(z, cs)] ELSE <<>>,
   NX |-> [i \in 1..(WinHi - WinLo + 1) |-> [t |-> WinLo + i - 1] @@ NextJ(z, WinLo + i - 1)],
   PV |-> [i \in 1..(WinHi - WinLo + 1) |-> [t |-> WinLo + i - 1] @@ PrevJ(z, WinLo + i - 1)]]
Exported == (done /\ Export) => PrintT("ZONE " \o ToJson(ExportLine))
=============================================================================
