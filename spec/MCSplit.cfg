SPECIFICATION Spec
INVARIANTS FloorLaw JoinLaw FracLaw
CHECK_DEADLOCK FALSE
