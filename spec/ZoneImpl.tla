------------------------------ MODULE ZoneImpl ------------------------------
(***************************************************************************)
(* The implementation-shaped model of TimeZoneInfo (src/time_zone_info.cc)  *)
(* for zones without a rule footer: the transition table as Load() builds   *)
(* it (big-bang sentinel in the first half of the time line, 2^31-1         *)
(* sentinel in the second, civil_sec / prev_civil_sec per entry, the        *)
(* civil-order acceptance test, civil_max / civil_min per type) and         *)
(* BreakTime / MakeTime / NextTransition / PrevTransition with their case   *)
(* analysis and the two remembered table indices (hints) as explicit        *)
(* arguments.  MCZoneImpl checks with TLC that this design refines the      *)
(* declarative module Zone for EVERY hint value - which is why the hints    *)
(* and the sentinels are invisible (C14, C10, C01, C02, C11 at design       *)
(* level).  It is never used as a trace oracle: a different but correct     *)
(* table algorithm must not be flagged.                                     *)
(***************************************************************************)
EXTENDS Zone

CONSTANT Sentinel32      \* the instant of the "second half" sentinel (2^31 - 1 in the real code)

Civ(t) == FromSeconds(t)                                  \* civil second UTC shows at instant t (wide)
LocalCiv(t, off) == FromSeconds(t \oplus W(off))
CivLess(a, b) == Less(a, b)
CivLeq(a, b) == ~Less(b, a)
CivDiff(a, b) == Diff(TagSecond, a, b)                    \* a - b in seconds (wide)
CivPlus(a, n) == Add(TagSecond, a, n)

\* ---- Load(): the table ----
Table(Z) ==
  LET file == [k \in 1..Z.n |-> [at |-> Z.at[k], ty |-> Z.ty[k]]]
      t1 == IF Z.n = 0 \/ ~(Z.at[1] \prec WZero) THEN <<[at |-> BigBangT, ty |-> Z.dflt]>> \o file ELSE file
      t2 == IF t1[Len(t1)].at \prec WZero THEN t1 \o <<[at |-> Sentinel32, ty |-> t1[Len(t1)].ty]>> ELSE t1
      prevty(i) == IF i = 1 THEN Z.dflt ELSE t2[i - 1].ty
  IN  [i \in 1..Len(t2) |->
         [at |-> t2[i].at, ty |-> t2[i].ty,
          cs |-> LocalCiv(t2[i].at, Z.types[t2[i].ty].off),
          pcs |-> CivPlus(LocalCiv(t2[i].at, Z.types[prevty(i)].off), W(-1))]]
\* "an offset change cannot cross another such change": the acceptance test of Load()
\* ... and (as repaired) the entries are in time order too: generated transitions of adjacent rule years may overlap
LoadOk(T) == \A i \in 2..Len(T) : CivLess(T[i - 1].cs, T[i].cs) /\ (T[i - 1].at \preceq T[i].at)
TypeCivilMax(Z, ty) == LocalCiv(TMax, Z.types[ty].off)
TypeCivilMin(Z, ty) == LocalCiv(TMin, Z.types[ty].off)

\* ---- BreakTime ----
\* upper_bound by unix time: number of entries with at <= t
RECURSIVE UbTime(_, _, _)
UbTime(T, t, i) == IF i > Len(T) \/ t \prec T[i].at THEN i - 1 ELSE UbTime(T, t, i + 1)
\* returns [ty, cs, hint']; the type index and civil second reported, and the hint stored
BreakTime(Z, T, hint, t) ==
  LET n == Len(T) IN
  IF t \prec T[1].at THEN [ty |-> Z.dflt, cs |-> LocalCiv(t, Z.types[Z.dflt].off), hint |-> hint]
  ELSE IF ~(t \prec T[n].at) THEN [ty |-> T[n].ty, cs |-> CivPlus(T[n].cs, t \ominus T[n].at), hint |-> hint]
  ELSE IF 0 < hint /\ hint < n /\ (T[hint].at \preceq t) /\ (t \prec T[hint + 1].at)      \* code: transitions_[hint-1] <= t < transitions_[hint]
       THEN [ty |-> T[hint].ty, cs |-> CivPlus(T[hint].cs, t \ominus T[hint].at), hint |-> hint]
  ELSE LET k == UbTime(T, t, 1) IN      \* entries 1..k are <= t; the code stores the 0-based index of the next one = k
       [ty |-> T[k].ty, cs |-> CivPlus(T[k].cs, t \ominus T[k].at), hint |-> k]

\* ---- MakeTime ----
RECURSIVE UbCivil(_, _, _)
UbCivil(T, cs, i) == IF i > Len(T) \/ CivLess(cs, T[i].cs) THEN i - 1 ELSE UbCivil(T, cs, i + 1)
Unique(t) == [kind |-> "UNIQUE", pre |-> t, trans |-> t, post |-> t]
MkSkipped(tr, cs) == [kind |-> "SKIPPED",
                      pre |-> (tr.at \ominus W(1)) \oplus CivDiff(cs, tr.pcs),
                      trans |-> tr.at,
                      post |-> tr.at \ominus CivDiff(tr.cs, cs)]
MkRepeated(tr, cs) == [kind |-> "REPEATED",
                       pre |-> (tr.at \ominus W(1)) \ominus CivDiff(tr.pcs, cs),
                       trans |-> tr.at,
                       post |-> tr.at \oplus CivDiff(cs, tr.cs)]
\* As repaired: an entry that leaves the offset alone (prev_civil_sec + 1 = civil_sec) cannot end an overlap - the entry that
\* decides whether cs is repeated is the latest one at or before k that changes the offset (the pinned design looked at k only,
\* so a designation-only entry shortly after a fall-back hid the rest of the repeated hour: MCZoneImpl!ImplMake, palette 6).
RECURSIVE SameOff(_, _)
SameOff(T, k) == IF k > 1 /\ CivPlus(T[k].pcs, W(1)) = T[k].cs THEN SameOff(T, k - 1) ELSE k
\* k = 0-based index of the first entry whose civil_sec is after cs (0 = begin, n = end); as in the code
MakeTime(Z, T, hint, cs) ==
  LET n == Len(T)
      k == IF CivLess(cs, T[1].cs) THEN 0
           ELSE IF CivLeq(T[n].cs, cs) THEN n
           ELSE IF 0 < hint /\ hint < n /\ CivLeq(T[hint].cs, cs) /\ CivLess(cs, T[hint + 1].cs) THEN hint
           ELSE UbCivil(T, cs, 1)
      newhint == IF CivLess(cs, T[1].cs) \/ CivLeq(T[n].cs, cs) \/
                    (0 < hint /\ hint < n /\ CivLeq(T[hint].cs, cs) /\ CivLess(cs, T[hint + 1].cs)) THEN hint ELSE k
      r == IF k = 0 THEN
             (IF CivLeq(cs, T[1].pcs) THEN        \* before the first transition: default offset
                (IF CivLess(cs, TypeCivilMin(Z, Z.dflt)) THEN Unique(TMin)
                 ELSE Unique(CivDiff(cs, LocalCiv(WZero, Z.types[Z.dflt].off))))
              ELSE MkSkipped(T[1], cs))
           ELSE IF k = n THEN
             (IF CivLess(T[SameOff(T, n)].pcs, cs) THEN       \* after the last transition
                (IF CivLess(TypeCivilMax(Z, T[n].ty), cs) THEN Unique(TMax)
                 ELSE Unique(T[n].at \oplus CivDiff(cs, T[n].cs)))
              ELSE MkRepeated(T[SameOff(T, n)], cs))
           ELSE IF CivLess(T[k + 1].pcs, cs) THEN MkSkipped(T[k + 1], cs)
           ELSE IF CivLeq(cs, T[SameOff(T, k)].pcs) THEN MkRepeated(T[SameOff(T, k)], cs)
           ELSE Unique(T[k].at \oplus CivDiff(cs, T[k].cs))
  IN  [r |-> r, hint |-> newhint]

\* ---- NextTransition / PrevTransition (with the repaired predecessor rule) ----
Begin(T) == IF T[1].at \preceq BigBangT THEN 2 ELSE 1          \* the big-bang entry is never reported
PrevTy(Z, T, i) == IF i = 1 THEN Z.dflt ELSE T[i - 1].ty
NoOp(Z, T, i) == Equiv(Z.types[PrevTy(Z, T, i)], Z.types[T[i].ty])
RECURSIVE NextFrom(_, _, _)
NextFrom(Z, T, i) == IF i > Len(T) THEN 0 ELSE IF NoOp(Z, T, i) THEN NextFrom(Z, T, i + 1) ELSE i
RECURSIVE PrevFrom(_, _, _)
PrevFrom(Z, T, i) == IF i < Begin(T) THEN 0 ELSE IF NoOp(Z, T, i) THEN PrevFrom(Z, T, i - 1) ELSE i
ImplNext(Z, T, t) == LET k == UbTime(T, t, 1)  i == NextFrom(Z, T, IF k + 1 < Begin(T) THEN Begin(T) ELSE k + 1) IN
                     IF i = 0 THEN [ok |-> FALSE] ELSE [ok |-> TRUE, from |-> CivPlus(T[i].pcs, W(1)), to |-> T[i].cs, at |-> T[i].at]
ImplPrev(Z, T, t) == LET k == UbTime(T, t \ominus W(1), 1)  i == PrevFrom(Z, T, k) IN      \* entries strictly before t
                     IF i = 0 THEN [ok |-> FALSE] ELSE [ok |-> TRUE, from |-> CivPlus(T[i].pcs, W(1)), to |-> T[i].cs, at |-> T[i].at]
=============================================================================
