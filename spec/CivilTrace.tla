----------------------------- MODULE CivilTrace -----------------------------
(* Trace validation for the civil-time events of harness/drv_civil.cc (C04, C05, C17). *)
EXTENDS CivilTime, TraceCommon
VARIABLES l, bad
vars == <<l, bad>>

B01(b) == IF b THEN 1 ELSE 0
D2C(v) == <<48 + ((v \div 10) % 10), 48 + (v % 10)>>
AlignedInput(tag, f) == ValidFields(f) /\ IsAligned(tag, f)

\* Each operator answers: is this logged call a behaviour the specification allows?
\* operator<<: "Y-MM-DDTHH:MM:SS" cut at the alignment, the year in plain decimal; the destination stream's width,
\* fill and left adjustment pad the WHOLE text and the width is consumed; no other stream state shows.
Text(tag, f) == WDec(f[1])
                \o (IF tag <= TagMonth  THEN <<45>> \o D2C(f[2]) ELSE <<>>)
                \o (IF tag <= TagDay    THEN <<45>> \o D2C(f[3]) ELSE <<>>)
                \o (IF tag <= TagHour   THEN <<84>> \o D2C(f[4]) ELSE <<>>)
                \o (IF tag <= TagMinute THEN <<58>> \o D2C(f[5]) ELSE <<>>)
                \o (IF tag <= TagSecond THEN <<58>> \o D2C(f[6]) ELSE <<>>)
Fill(n, c) == [i \in 1..(IF n > 0 THEN n ELSE 0) |-> c]
Streamed(e) == LET t == Text(e.tag, e.r)  pad == Fill(e.sw - Len(t), e.sf) IN
               /\ e.s = (IF e.sl = 1 THEN t \o pad ELSE pad \o t)
               /\ e.swa = 0
OkCtor(e) == InDomainCtor(e.a) => (e.ub = 0 /\ e.r = Ctor(e.tag, e.a) /\ Streamed(e))
OkAdd(e, n) == /\ AlignedInput(e.tag, e.a)
               /\ InDomainAdd(e.tag, e.a, n) => (e.ub = 0 /\ e.r = Add(e.tag, e.a, n))
OkDiff(e) == /\ AlignedInput(e.tag, e.a) /\ AlignedInput(e.tag, e.b)
             /\ InDomainDiff(e.tag, e.a, e.b) => (e.ub = 0 /\ e.r = Diff(e.tag, e.a, e.b))
OkCmp(e) == LET c == Cmp(e.a, e.b) IN
            /\ AlignedInput(e.ta, e.a) /\ AlignedInput(e.tb, e.b)
            /\ e.lt = B01(c < 0) /\ e.le = B01(c <= 0) /\ e.gt = B01(c > 0)
            /\ e.ge = B01(c >= 0) /\ e.eq = B01(c = 0) /\ e.ne = B01(c # 0)
            \* the order agrees with difference (same alignment only)
            /\ (e.ta = e.tb => (c < 0) = (WCmp(Diff(e.ta, e.a, e.b), WZero) < 0))
OkConv(e) == AlignedInput(e.from, e.a) /\ e.r = Align(e.to, e.a)
OkWday(e) == ValidFields(e.a) /\ e.ub = 0 /\ e.wd = WeekdayOf(e.a) /\ e.yd = YearDayOf(e.a)
OkNextWd(e) == /\ AlignedInput(TagDay, e.a)
               /\ InI64(NextWeekday(e.a, e.wd)[1]) =>
                    /\ e.ub = 0 /\ e.r = NextWeekday(e.a, e.wd)
                    /\ WeekdayOf(e.r) = e.wd
                    /\ WInt(Diff(TagDay, e.r, e.a)) \in 1..7
OkPrevWd(e) == /\ AlignedInput(TagDay, e.a)
               /\ InI64(PrevWeekday(e.a, e.wd)[1]) =>
                    /\ e.ub = 0 /\ e.r = PrevWeekday(e.a, e.wd)
                    /\ WeekdayOf(e.r) = e.wd
                    /\ WInt(Diff(TagDay, e.a, e.r)) \in 1..7

Allowed(e) == CASE e.e = "Ctor"   -> OkCtor(e)
                [] e.e = "Add"    -> OkAdd(e, e.n)
                [] e.e = "Sub"    -> OkAdd(e, WNeg(e.n))
                [] e.e = "Diff"   -> OkDiff(e)
                [] e.e = "Cmp"    -> OkCmp(e)
                [] e.e = "Conv"   -> OkConv(e)
                [] e.e = "Wday"   -> OkWday(e)
                [] e.e = "NextWd" -> OkNextWd(e)
                [] e.e = "PrevWd" -> OkPrevWd(e)
                [] OTHER -> FALSE

Init == l = 1 /\ bad = 0
Next == /\ l <= TraceLen
        /\ l' = l + 1
        /\ LET ok == Allowed(TraceLog[l]) IN
             /\ bad' = IF ok THEN bad ELSE bad + 1
             /\ IF ok THEN TRUE ELSE Reject(l, TraceLog[l].e)
Spec == Init /\ [][Next]_vars
=============================================================================
