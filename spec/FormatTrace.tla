----------------------------- MODULE FormatTrace -----------------------------
(* Trace validation for harness/drv_format.cc: C08 (Format events) and C07 (RT7 events). *)
EXTENDS Format, TraceCommon
VARIABLES l, bad
vars == <<l, bad>>
HasNul(s) == \E i \in 1..Len(s) : s[i] = 0
OkFormat(e) ==
  /\ e.ub = 0
  /\ e.hist = 1          \* the same call gave the same text after an unrelated call (C14: no history)
  \* a stretch that goes to strftime and contains a NUL has no recorded answer (a C string cannot carry it): the format
  \* is then undetermined; NUL bytes in ordinary text between library-rendered specifiers are ordinary bytes
  /\ LET r == FormatOut(e.fmt, [cs |-> e.cs, off |-> e.off, abbr |-> e.abbr], e.fs, e.t, e.env) IN
       r[1] => e.out = r[2]
\* ---- C07: the family of lossless formats ----
Kinds(fmt) == LET it == Items(fmt) IN {it[k][2] : k \in {k \in 1..Len(it) : it[k][1] = "int"}}
HasS(K, c) == \E sp \in K : sp.kind = "simple" /\ sp.n = c
\* the format contains the conversion %c handed to the C library (an unescaped '%' directly followed by c)
RECURSIVE BackRun(_, _)
BackRun(s, i) == IF i >= 1 /\ s[i] = 37 THEN 1 + BackRun(s, i - 1) ELSE 0
ConvE(fmt, c) == \E i \in 1..(Len(fmt) - 2) : fmt[i] = 37 /\ fmt[i + 1] = 69 /\ fmt[i + 2] = c /\ BackRun(fmt, i) % 2 = 1
EYFirst(fmt) == LET p == CHOOSE i \in 1..(Len(fmt) - 2) : fmt[i] = 37 /\ fmt[i + 1] = 69 /\ fmt[i + 2] = 89 /\ BackRun(fmt, i) % 2 = 1 IN
                \A j \in 1..(Len(fmt) - 1) : (fmt[j] = 37 /\ fmt[j + 1] \in {117, 119, 97, 65} /\ BackRun(fmt, j) % 2 = 1) => j > p
Conv(fmt, c) == \E i \in 1..(Len(fmt) - 1) : fmt[i] = 37 /\ fmt[i + 1] = c /\ BackRun(fmt, i) % 2 = 1
Lossless(fmt, cs, off) ==
  LET K == Kinds(fmt) IN
     /\ (HasS(K, 89) \/ ((\E sp \in K : sp.kind = "E4Y") /\ WLe(W(-999), cs[1]) /\ WLe(cs[1], W(9999)))
            \* %EY: the C library's year, four digits.  A date-like specifier handed to strptime after a weekday field makes the C
            \* library recompute the weekday from stale fields (left open): with a week number %EY must come before every weekday field
            \/ (ConvE(fmt, 89) /\ WLe(W(1000), cs[1]) /\ WLe(cs[1], W(9999))
                /\ (~(HasS(K, 85) \/ HasS(K, 87)) \/ EYFirst(fmt))))
     /\ \/ (HasS(K, 109) /\ (HasS(K, 100) \/ HasS(K, 101)))                 \* %m with %d | %e
        \/ ((HasS(K, 85) \/ HasS(K, 87)) /\ (HasS(K, 117) \/ HasS(K, 119) \/ Conv(fmt, 97) \/ Conv(fmt, 65))) \* week number with weekday (number or name)
     /\ ((HasS(K, 72) \/ (Conv(fmt, 73) /\ Conv(fmt, 112))) /\ HasS(K, 77))   \* (%H | %I with %p, in either order) %M
     /\ \/ (\E sp \in K : sp.kind = "EstarS" \/ (sp.kind = "EnS" /\ sp.n >= 15))
        \/ (HasS(K, 83) /\ (\E sp \in K : sp.kind = "Estarf" \/ (sp.kind = "Enf" /\ sp.n >= 15)))
        \* %E0S ("like %S") with the full fraction anywhere else, as long as its text is not directly followed by '.' (which the
        \* seconds field would claim as its own fraction)
        \/ ((\E sp \in K : sp.kind = "EnS" /\ sp.n = 0) /\ ~(\E sp \in K : sp.kind = "EnS" /\ sp.n > 0) /\ ~(\E sp \in K : sp.kind = "EstarS")
            /\ (\E sp \in K : sp.kind = "Estarf" \/ (sp.kind = "Enf" /\ sp.n >= 15))
            /\ ~(\E i \in 1..(Len(fmt) - 1) : fmt[i] = 83 /\ fmt[i + 1] = 46))
     /\ \/ (\E sp \in K : sp.kind = "colz" /\ sp.n \in {2, 3})              \* full-resolution offset
        \/ (off % 60 = 0 /\ (HasS(K, 122) \/ (\E sp \in K : sp.kind = "colz")))
\* %s renders the whole seconds only: it gives back the instant's second
HasPctS(fmt) == HasS(Kinds(fmt), 115)
OkRT7(e) == /\ e.ub = 0
            /\ HasPctS(e.fmt) => (e.ok = 1 /\ e.t2 = e.t)
            /\ (~HasPctS(e.fmt) /\ Lossless(e.fmt, e.cs, e.off)) => (e.ok = 1 /\ e.t2 = e.t /\ e.fs2 = e.fs)
\* the judged calls repeated by several threads at once (format() is a const function of its arguments): the same texts
OkConc(e) == e.mismatch = 0 /\ e.calls > 0
Allowed(e) == CASE e.e = "Format" -> OkFormat(e) [] e.e = "RT7" -> OkRT7(e) [] e.e = "Conc" -> OkConc(e) [] OTHER -> FALSE
Init == l = 1 /\ bad = 0
Next == /\ l <= TraceLen
        /\ l' = l + 1
        /\ LET ok == Allowed(TraceLog[l]) IN
             /\ bad' = IF ok THEN bad ELSE bad + 1
             /\ IF ok THEN TRUE ELSE Reject(l, TraceLog[l].e)
Spec == Init /\ [][Next]_vars
=============================================================================
