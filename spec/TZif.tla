-------------------------------- MODULE TZif --------------------------------
(***************************************************************************)
(* An independent reading of TZif bytes (tzfile(5) / RFC 8536 / RFC 9636).  *)
(* Decode(b) is total on byte sequences (b[i] \in 0..255) and returns the   *)
(* raw tables; Classify says what is demanded of the loader for those bytes *)
(* (see DESIGN.md section 1, "what is demanded of Load").                   *)
(***************************************************************************)
EXTENDS PosixTZ, TLC

Magic == <<84, 90, 105, 102>>           \* "TZif"
HdrLen == 44

\* big-endian two's complement
S32(b, i) == IF b[i] >= 128 THEN (b[i] - 256) * 16777216 + b[i+1] * 65536 + b[i+2] * 256 + b[i+3]
             ELSE b[i] * 16777216 + b[i+1] * 65536 + b[i+2] * 256 + b[i+3]
S64(b, i) == (WMulSmall(WMulSmall(W(S32(b, i)), 65536), 65536)
               \oplus WMulSmall(W(b[i+4] * 256 + b[i+5]), 65536)) \oplus W(b[i+6] * 256 + b[i+7])

Pow2_59 == WMulSmall(WMulSmall(WMulSmall(WMulSmall(W(32768), 32768), 32768), 16384), 1)   \* 2^15*2^15*2^15*2^14
ASSUME Pow2_59 = <<1, 3488, 342, 7523, 6460, 57>>   \* 576460752303423488

\* header at 0-based offset o; needs o + 44 <= Len(b)
Header(b, o) ==
  IF o + HdrLen > Len(b) \/ SubSeq(b, o + 1, o + 4) # Magic THEN [ok |-> FALSE]
  ELSE LET c == [k \in 0..5 |-> S32(b, o + 21 + 4 * k)] IN
       [ok |-> \A k \in 0..5 : c[k] >= 0 /\ c[k] <= Len(b),      \* a count beyond the file cannot be satisfied
        version |-> b[o + 5],
        isutcnt |-> c[0], isstdcnt |-> c[1], leapcnt |-> c[2],
        timecnt |-> c[3], typecnt |-> c[4], charcnt |-> c[5]]
DataLen(h, tl) == (tl + 1) * h.timecnt + 6 * h.typecnt + h.charcnt + (tl + 4) * h.leapcnt
                  + h.isstdcnt + h.isutcnt

\* position of the first element equal to v in s[lo..hi] (which must contain one): binary splitting,
\* so that long inputs need neither deep recursion nor quadratic concatenation
Has(s, v, lo, hi) == \E j \in lo..hi : s[j] = v
RECURSIVE First(_, _, _, _)
First(s, v, lo, hi) == IF lo = hi THEN lo
                       ELSE LET mid == (lo + hi) \div 2 IN
                            IF Has(s, v, lo, mid) THEN First(s, v, lo, mid) ELSE First(s, v, mid + 1, hi)
\* bytes from 1-based position i up to (not including) the next NUL
CStr(s, i) == IF i > Len(s) THEN <<>>
              ELSE IF Has(s, 0, i, Len(s)) THEN SubSeq(s, i, First(s, 0, i, Len(s)) - 1) ELSE SubSeq(s, i, Len(s))
FindNL(b, i) == IF i <= Len(b) /\ Has(b, 10, i, Len(b)) THEN First(b, 10, i, Len(b)) ELSE 0

Bad(why) == [ok |-> FALSE, why |-> why]
\* The data block that is decoded: the only one in a version-1 file, the second (8-byte) one otherwise.
Decode(b) ==
  LET h1 == Header(b, 0) IN
  IF ~h1.ok THEN Bad("header") ELSE
  LET v1   == h1.version = 0
      o2   == HdrLen + DataLen(h1, 4)                 \* offset of the second header
      h    == IF v1 THEN h1 ELSE Header(b, o2)
  IN
  IF ~h.ok THEN Bad("header2") ELSE
  IF ~v1 /\ h.version = 0 THEN Bad("header2-version") ELSE
  LET tl   == IF v1 THEN 4 ELSE 8
      d0   == (IF v1 THEN 0 ELSE o2) + HdrLen         \* 0-based offset of the data block
      dlen == DataLen(h, tl)
  IN
  IF d0 + dlen > Len(b) THEN Bad("truncated") ELSE
  LET pT   == d0                                      \* transition times
      pI   == pT + tl * h.timecnt                     \* type indices
      pY   == pI + h.timecnt                          \* ttinfo
      pC   == pY + 6 * h.typecnt                      \* abbreviation characters
      pEnd == d0 + dlen
      chars == SubSeq(b, pC + 1, pC + h.charcnt)
      nl1  == IF pEnd + 1 <= Len(b) /\ b[pEnd + 1] = 10 THEN pEnd + 1 ELSE 0
      nl2  == IF nl1 = 0 THEN 0 ELSE FindNL(b, nl1 + 1)
  IN
  [ok |-> TRUE, why |-> "",
   version |-> h1.version, tl |-> tl,
   timecnt |-> h.timecnt, typecnt |-> h.typecnt, charcnt |-> h.charcnt, leapcnt |-> h.leapcnt,
   isstdcnt |-> h.isstdcnt, isutcnt |-> h.isutcnt,
   times |-> TLCEval([k \in 1..h.timecnt |-> IF tl = 4 THEN W(S32(b, pT + 4 * (k - 1) + 1)) ELSE S64(b, pT + 8 * (k - 1) + 1)]),
   tidx  |-> TLCEval([k \in 1..h.timecnt |-> b[pI + k]]),
   types |-> TLCEval([k \in 1..h.typecnt |-> [off |-> S32(b, pY + 6 * (k - 1) + 1),
                                       dst |-> b[pY + 6 * (k - 1) + 5] # 0,
                                       ai  |-> b[pY + 6 * (k - 1) + 6]]]),
   chars |-> chars,
   hasfooter |-> ~v1 /\ nl2 # 0,
   \* a version-2+ file that ends before the closing newline of its footer: a truncated file
   cut |-> ~v1 /\ (pEnd >= Len(b) \/ (nl1 # 0 /\ nl2 = 0)),
   footer |-> IF ~v1 /\ nl2 # 0 THEN SubSeq(b, nl1 + 1, nl2 - 1) ELSE <<>>]

\* structural validity of the decoded block (RFC 8536 section 3.2 + what zic guarantees)
StructOk(D) ==
  /\ D.ok
  /\ D.typecnt >= 1 /\ D.typecnt <= 256
  /\ D.isstdcnt \in {0, D.typecnt} /\ D.isutcnt \in {0, D.typecnt}
  /\ \A k \in 1..D.timecnt : D.tidx[k] < D.typecnt
  /\ \A k \in 1..D.typecnt : /\ D.types[k].ai < D.charcnt
                             /\ Has(D.chars, 0, D.types[k].ai + 1, D.charcnt)      \* designations are NUL-terminated inside the block
                             /\ D.types[k].off > -86400 /\ D.types[k].off < 86400
  /\ \A k \in 2..D.timecnt : D.times[k - 1] \prec D.times[k]
  /\ D.version = 0 \/ D.hasfooter
TimesInZicRange(D) == \A k \in 1..D.timecnt : WNeg(Pow2_59) \preceq D.times[k] /\ D.times[k] \preceq Pow2_59

\* type for times before the first transition: the tzcode heuristic (type 0 unless type 0 is
\* used by a transition -- then the nearest standard-time type as tzcode searches for it)
RECURSIVE DownStd(_, _)
DownStd(D, i) == IF i # 0 /\ D.types[i + 1].dst THEN DownStd(D, i - 1) ELSE i          \* 0-based index
RECURSIVE UpStd(_, _)
UpStd(D, i) == IF i # D.typecnt /\ D.types[i + 1].dst THEN UpStd(D, i + 1) ELSE i
DefaultType(D) ==            \* 0-based
  IF D.timecnt = 0 \/ ~(\E k \in 1..D.timecnt : D.tidx[k] = 0) THEN 0
  ELSE LET i0 == IF D.types[1].dst THEN DownStd(D, D.tidx[1]) ELSE 0
           i1 == UpStd(D, i0)
       IN  IF i1 # D.typecnt THEN i1 ELSE 0
=============================================================================
