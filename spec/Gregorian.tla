----------------------------- MODULE Gregorian -----------------------------
(***************************************************************************)
(* The proleptic Gregorian calendar.  Years are wide integers (module       *)
(* Wide), months, days and day-of-cycle quantities are native.              *)
(*                                                                         *)
(* First principles: IsLeap, DaysInMonth, NextDay.  Closed forms:           *)
(* DaysFromCivil / CivilFromDays (days relative to 1970-01-01).  MCGregorian*)
(* checks with TLC that the closed forms agree with day-by-day stepping on  *)
(* the whole 146097-day cycle; both closed forms are 400-year periodic by   *)
(* construction (the year enters only through floor division by 400).       *)
(***************************************************************************)
EXTENDS Wide

IsLeapIdx(yi) == (yi % 4 = 0) /\ (yi % 100 # 0 \/ yi % 400 = 0)    \* yi = year mod 400 (native)
IsLeap(y) == IsLeapIdx(WMod(y, 400))
DaysInMonth(y, m) == IF m = 2 THEN (IF IsLeap(y) THEN 29 ELSE 28)
                     ELSE IF m \in {4, 6, 9, 11} THEN 30 ELSE 31
DaysInYear(y) == IF IsLeap(y) THEN 366 ELSE 365
ValidDate(y, m, d) == m \in 1..12 /\ d >= 1 /\ d <= DaysInMonth(y, m)

NextDay(y, m, d) == IF d < DaysInMonth(y, m) THEN <<y, m, d + 1>>
                    ELSE IF m < 12 THEN <<y, m + 1, 1>> ELSE <<y \oplus W(1), 1, 1>>

\* days from 1970-01-01 to y-m-d (m in 1..12; d any native integer: counted from the first)
DaysFromCivil(y, m, d) ==
  LET ym  == IF m <= 2 THEN y \ominus W(1) ELSE y
      qr  == WDivMod(ym, 400)
      yoe == qr[2]
      mp  == IF m > 2 THEN m - 3 ELSE m + 9
      doy == (153 * mp + 2) \div 5 + d - 1
      doe == yoe * 365 + yoe \div 4 - yoe \div 100 + doy
  IN  WMulSmall(qr[1], 146097) \oplus W(doe - 719468)

CivilFromDays(z) ==
  LET qr  == WDivMod(z \oplus W(719468), 146097)
      doe == qr[2]
      yoe == (doe - doe \div 1460 + doe \div 36524 - doe \div 146096) \div 365
      doy == doe - (365 * yoe + yoe \div 4 - yoe \div 100)
      mp  == (5 * doy + 2) \div 153
      d   == doy - (153 * mp + 2) \div 5 + 1
      m   == IF mp < 10 THEN mp + 3 ELSE mp - 9
      y   == WMulSmall(qr[1], 400) \oplus W(yoe + (IF m <= 2 THEN 1 ELSE 0))
  IN  <<y, m, d>>

\* 0 = Monday ... 6 = Sunday; day 0 (1970-01-01) is a Thursday
Weekday(z) == WMod(z \oplus W(3), 7)
YearDay(y, m, d) == WInt(DaysFromCivil(y, m, d) \ominus DaysFromCivil(y, 1, 1)) + 1
=============================================================================
