SPECIFICATION Spec
POSTCONDITION TraceConsumed
CHECK_DEADLOCK FALSE
