SPECIFICATION FairSpec
CONSTANTS
  Threads = {"t1", "t2"}
  Names <- MCNames
  Kind <- MCKind
  MaxCalls = 2
  SerializeLoads = FALSE
INVARIANTS TypeOK FactoryOnce FactorySerial NoFactoryForFixed Agree SeqEquiv
PROPERTIES Sticky AllReturn
CHECK_DEADLOCK FALSE
