----------------------------- MODULE FixedTrace -----------------------------
(* Trace validation for harness/drv_fixed.cc (C15). *)
EXTENDS Fixed, CivilTime, TraceCommon
VARIABLES l, bad
vars == <<l, bad>>
OkLookup(x, o) == /\ x.cs = FromSeconds(x.t \oplus W(o)) /\ x.off = o /\ x.dst = 0 /\ x.abbr = OffsetToAbbr(o)
OkFixed(e) ==
  LET o == Effective(e.o) IN
  /\ e.ub = 0
  /\ e.name = OffsetToName(e.o) /\ e.toname = OffsetToName(e.o) /\ e.toabbr = OffsetToAbbr(e.o)
  /\ e.fromok = 1 /\ e.fromoff = o
  /\ e.loadok = 1 /\ e.eq = 1
  /\ e.isutc = (IF o = 0 THEN 1 ELSE 0)
  /\ Len(e.lookups) = 7
  /\ \A i \in 1..Len(e.lookups) : OkLookup(e.lookups[i], o)
  /\ e.calls = 0                         \* no zone data is consulted for fixed-offset names
\* offsets outside +-24 h anywhere in the 64-bit range (logged wide in `ow`; `o` carries a stand-in 90000): UTC
OkFixedBig(e) == (W(86400) \prec e.ow \/ e.ow \prec W(-86400)) /\ OkFixed(e)
OkFixedName(e) ==
  LET r == NameToOffset(e.name) IN
  /\ e.ub = 0
  /\ e.fok = (IF r.ok THEN 1 ELSE 0)
  /\ r.ok => (e.foff = r.off /\ e.ok = 1 /\ e.off = r.off /\ e.calls = 0
              /\ e.tzname = (IF r.off = 0 THEN UTCName ELSE e.name))
  \* anything else goes to the zone data source (which serves nothing here) and fails with UTC
  /\ ~r.ok => (e.ok = 0 /\ e.off = 0 /\ e.tzname = UTCName)
\* a text is a fixed-offset name only if it has exactly that shape: "UTC", "UTC0" or the 18 characters - whatever it begins with
OkFixedLong(e) == e.ub = 0 /\ ((e.len # W(3) /\ e.len # W(4) /\ e.len # W(18)) => e.fok = 0)
Allowed(e) == CASE e.e = "FixedLong" -> OkFixedLong(e) [] e.e = "Fixed" -> OkFixed(e) [] e.e = "FixedBig" -> OkFixedBig(e) [] e.e = "FixedName" -> OkFixedName(e) [] OTHER -> FALSE
Init == l = 1 /\ bad = 0
Next == /\ l <= TraceLen
        /\ l' = l + 1
        /\ LET ok == Allowed(TraceLog[l]) IN
             /\ bad' = IF ok THEN bad ELSE bad + 1
             /\ IF ok THEN TRUE ELSE Reject(l, TraceLog[l].e)
Spec == Init /\ [][Next]_vars
=============================================================================
