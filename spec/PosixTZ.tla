------------------------------ MODULE PosixTZ ------------------------------
(***************************************************************************)
(* POSIX-TZ rule strings (the footer of a TZif file).                       *)
(*                                                                         *)
(* (a) ParseSpec(s): a recogniser-with-result for the grammar               *)
(*        std offset [ dst [offset] , date[/time] , date[/time] ]           *)
(*     over a string given as a sequence of byte values (so NUL and bytes   *)
(*     >= 0x80 are ordinary symbols).                                       *)
(* (b) Rule evaluation: the instant at which a date/time rule fires in a    *)
(*     given year, on the proleptic Gregorian calendar.                     *)
(***************************************************************************)
EXTENDS Gregorian

cPlus == 43  cComma == 44  cMinus == 45  cDot == 46  cSlash == 47  cColon == 58
cLT == 60  cGT == 62  cJ == 74  cM == 77  c0 == 48  c9 == 57  cNUL == 0
IsDigit(c) == c >= c0 /\ c <= c9

FmtJ == "J"  FmtN == "N"  FmtM == "M"
NoDate == [fmt |-> "none", a |-> 0, b |-> 0, c |-> 0]
Fail == [ok |-> FALSE]

(* ---- (a) the grammar -------------------------------------------------- *)
\* All scanners take the string s and a 1-based position i and return a record with
\* ok, the position after the match (nx) and the value.
At(s, i) == IF i <= Len(s) THEN s[i] ELSE -1          \* -1 = end of string

\* digits+ with value in lo..hi (any number of digits; values beyond the cap are "too large")
RECURSIVE ScanDigits(_, _, _, _)
ScanDigits(s, i, v, n) ==        \* <<next position, value (capped at 100000), #digits>>
  IF IsDigit(At(s, i))
  THEN ScanDigits(s, i + 1, IF v >= 100000 THEN v ELSE v * 10 + (s[i] - c0), n + 1)
  ELSE <<i, v, n>>
ParseInt(s, i, lo, hi) ==
  LET r == ScanDigits(s, i, 0, 0) IN
  IF r[3] = 0 \/ r[2] < lo \/ r[2] > hi THEN Fail ELSE [ok |-> TRUE, nx |-> r[1], v |-> r[2]]

\* abbreviation: <...> (anything but '>' and NUL inside) or >= 3 symbols that are not
\* digits, sign or comma (NUL ends a C string and so ends the abbreviation too)
RECURSIVE ScanQuoted(_, _)
ScanQuoted(s, i) == IF i > Len(s) \/ s[i] = cGT \/ s[i] = cNUL THEN i ELSE ScanQuoted(s, i + 1)
AbbrStop(c) == IsDigit(c) \/ c \in {cPlus, cMinus, cComma, cNUL}
RECURSIVE ScanPlain(_, _)
ScanPlain(s, i) == IF i > Len(s) \/ AbbrStop(s[i]) THEN i ELSE ScanPlain(s, i + 1)
ParseAbbr(s, i) ==
  IF At(s, i) = cLT
  THEN LET j == ScanQuoted(s, i + 1) IN
       IF At(s, j) = cGT THEN [ok |-> TRUE, nx |-> j + 1, v |-> SubSeq(s, i + 1, j - 1)] ELSE Fail
  ELSE LET j == ScanPlain(s, i) IN
       IF j - i >= 3 THEN [ok |-> TRUE, nx |-> j, v |-> SubSeq(s, i, j - 1)] ELSE Fail

\* [+-]hh[:mm[:ss]] with hh in lo..hi; sign is the value of an unsigned or '+' offset
ParseOffset(s, i, lo, hi, sign) ==
  LET sg == IF At(s, i) = cMinus THEN -sign ELSE sign
      i1 == IF At(s, i) \in {cPlus, cMinus} THEN i + 1 ELSE i
      h  == ParseInt(s, i1, lo, hi)
  IN
  IF ~h.ok THEN Fail
  ELSE IF At(s, h.nx) # cColon THEN [ok |-> TRUE, nx |-> h.nx, v |-> sg * h.v * 3600]
  ELSE LET m == ParseInt(s, h.nx + 1, 0, 59) IN
       IF ~m.ok THEN Fail
       ELSE IF At(s, m.nx) # cColon THEN [ok |-> TRUE, nx |-> m.nx, v |-> sg * (h.v * 3600 + m.v * 60)]
       ELSE LET sc == ParseInt(s, m.nx + 1, 0, 59) IN
            IF ~sc.ok THEN Fail
            ELSE [ok |-> TRUE, nx |-> sc.nx, v |-> sg * (h.v * 3600 + m.v * 60 + sc.v)]

\* ,date[/time]   (the comma is part of the rule: without it there is no date)
ParseDate(s, i) ==
  IF At(s, i) = cM THEN
    LET m == ParseInt(s, i + 1, 1, 12) IN
    IF ~m.ok \/ At(s, m.nx) # cDot THEN Fail ELSE
    LET w == ParseInt(s, m.nx + 1, 1, 5) IN
    IF ~w.ok \/ At(s, w.nx) # cDot THEN Fail ELSE
    LET d == ParseInt(s, w.nx + 1, 0, 6) IN
    IF ~d.ok THEN Fail ELSE [ok |-> TRUE, nx |-> d.nx, v |-> [fmt |-> FmtM, a |-> m.v, b |-> w.v, c |-> d.v]]
  ELSE IF At(s, i) = cJ THEN
    LET n == ParseInt(s, i + 1, 1, 365) IN
    IF ~n.ok THEN Fail ELSE [ok |-> TRUE, nx |-> n.nx, v |-> [fmt |-> FmtJ, a |-> n.v, b |-> 0, c |-> 0]]
  ELSE
    LET n == ParseInt(s, i, 0, 365) IN
    IF ~n.ok THEN Fail ELSE [ok |-> TRUE, nx |-> n.nx, v |-> [fmt |-> FmtN, a |-> n.v, b |-> 0, c |-> 0]]
ParseDateTime(s, i) ==
  IF At(s, i) # cComma THEN Fail ELSE
  LET d == ParseDate(s, i + 1) IN
  IF ~d.ok THEN Fail
  ELSE IF At(s, d.nx) # cSlash THEN [ok |-> TRUE, nx |-> d.nx, v |-> [date |-> d.v, time |-> 7200]]
  ELSE LET t == ParseOffset(s, d.nx + 1, 0, 167, 1) IN
       IF ~t.ok THEN Fail ELSE [ok |-> TRUE, nx |-> t.nx, v |-> [date |-> d.v, time |-> t.v]]

NoRule == [date |-> NoDate, time |-> 0]
\* The result: ok; std_abbr, std_off (seconds EAST of UTC, i.e. POSIX sign inverted); and when a
\* dst part is present (hasdst) dst_abbr, dst_off, start, end.
ParseSpec(s) ==
  LET a == ParseAbbr(s, 1) IN
  IF ~a.ok THEN Fail ELSE
  LET o == ParseOffset(s, a.nx, 0, 24, -1) IN
  IF ~o.ok THEN Fail ELSE
  IF o.nx > Len(s) THEN [ok |-> TRUE, hasdst |-> FALSE, std_abbr |-> a.v, std_off |-> o.v,
                         dst_abbr |-> <<>>, dst_off |-> 0, start |-> NoRule, end |-> NoRule]
  ELSE
  LET da == ParseAbbr(s, o.nx) IN
  IF ~da.ok THEN Fail ELSE
  LET do == IF At(s, da.nx) = cComma THEN [ok |-> TRUE, nx |-> da.nx, v |-> o.v + 3600]
            ELSE ParseOffset(s, da.nx, 0, 24, -1) IN
  IF ~do.ok THEN Fail ELSE
  LET r1 == ParseDateTime(s, do.nx) IN
  IF ~r1.ok THEN Fail ELSE
  LET r2 == ParseDateTime(s, r1.nx) IN
  IF ~r2.ok \/ r2.nx <= Len(s) THEN Fail
  ELSE [ok |-> TRUE, hasdst |-> TRUE, std_abbr |-> a.v, std_off |-> o.v,
        dst_abbr |-> da.v, dst_off |-> do.v, start |-> r1.v, end |-> r2.v]

\* Strings on which the property text leaves the verdict open: a leading ':' (POSIX:
\* implementation-defined) -- see DESIGN.md, "deliberate modelling decisions".
Unconstrained(s) == At(s, 1) = cColon

(* ---- (b) rule evaluation ---------------------------------------------- *)
MonthStart(leap, m) ==      \* 0-based day of year of the first of month m (m = 13: next Jan 1)
  LET t == <<0, 31, 59, 90, 120, 151, 181, 212, 243, 273, 304, 334, 365>> IN
  t[m] + (IF leap /\ m > 2 THEN 1 ELSE 0)
\* 0-based day of the year on which the date rule falls; jan1wd: POSIX weekday (0 = Sunday) of Jan 1
RuleDay(date, leap, jan1wd) ==
  CASE date.fmt = FmtJ -> date.a - 1 + (IF leap /\ date.a >= 60 THEN 1 ELSE 0)    \* Feb 29 never counted
    [] date.fmt = FmtN -> date.a                                                    \* Feb 29 counted
    [] date.fmt = FmtM ->
         LET ms    == MonthStart(leap, date.a)
             len   == MonthStart(leap, date.a + 1) - ms
             first == ms + ((date.c - (jan1wd + ms)) % 7)     \* first such weekday of the month
         IN  IF date.b < 5 THEN first + 7 * (date.b - 1)
             ELSE IF first + 28 < ms + len THEN first + 28 ELSE first + 21   \* the last one
\* POSIX weekday (0 = Sunday) of January 1st of year y (wide)
Jan1Weekday(y) == (Weekday(DaysFromCivil(y, 1, 1)) + 1) % 7
\* the instant (wide, seconds since the epoch) at which `rule` fires in year y when the offset in
\* force before it is `off`
RuleInstant(rule, y, off) ==
  WMulSmall(DaysFromCivil(y, 1, 1) \oplus W(RuleDay(rule.date, IsLeap(y), Jan1Weekday(y))), 86400)
    \oplus W(rule.time - off)

\* zic encodes "DST all year" as start 0/0 and end J365/(24h + std - dst)
AllYearDST(p) == /\ p.hasdst
                 /\ p.start.date.fmt = FmtN /\ p.start.date.a = 0 /\ p.start.time = 0
                 /\ p.end.date.fmt = FmtJ /\ p.end.date.a = 365
                 /\ p.end.time + (p.std_off - p.dst_off) = 86400
=============================================================================
