----------------------------- MODULE ParseTrace -----------------------------
(* Trace validation for harness/drv_parse.cc (C09). *)
EXTENDS Parse, Zone, TraceCommon
RealTMin == <<-1, 5808, 5477, 368, 3372, 922>>
RealTMax == <<1, 5807, 5477, 368, 3372, 922>>
RealBigBang == <<-1, 3488, 342, 7523, 6460, 57>>
Loads == SelectSeq(TraceLog, LAMBDA e : e.e = "Load")
ZT == TLCEval([k \in 1..Len(Loads) |-> LET D == Decode(Loads[k].bytes) IN
                 IF StructOk(D) THEN LET Z == MkZone(D) IN [ok |-> TimesInZicRange(D) /\ WellFormed(Z), z |-> Z] ELSE [ok |-> FALSE]])
VARIABLES l, bad
vars == <<l, bad>>
HasNulP(s) == \E i \in 1..Len(s) : s[i] = 0
OkParse(e) ==
  /\ e.ub = 0                              \* no (format, input) pair causes undefined behaviour
  /\ e.gl = 1                              \* the outcome does not depend on the process's global C++ locale (the grammar is fixed)
  /\ (~HasNulP(e.fmt) /\ ~HasNulP(e.input) /\ (e.z = 0 \/ ZT[e.z].ok)) =>
       LET zmake(cs) == IF e.z = 0 THEN SecondsOf(cs) \ominus W(e.zoff)
                        ELSE LET m == Make(ZT[e.z].z, cs) IN IF m.kind = "ILLFORMED" THEN TMax \oplus TMax ELSE m.rawpre
           r == ParseResult(e.fmt, e.input, e.env, zmake)
       IN  r.open \/ (e.ok = (IF r.ok THEN 1 ELSE 0) /\ (r.ok => (e.t = r.t /\ e.fs = r.fs)))
Allowed(e) == CASE e.e = "Parse" -> OkParse(e) [] e.e = "Load" -> TRUE [] OTHER -> FALSE
Init == l = 1 /\ bad = 0
Next == /\ l <= TraceLen
        /\ l' = l + 1
        /\ LET ok == Allowed(TraceLog[l]) IN
             /\ bad' = IF ok THEN bad ELSE bad + 1
             /\ IF ok THEN TRUE ELSE Reject(l, TraceLog[l].e)
Spec == Init /\ [][Next]_vars
=============================================================================
