---------------------------- MODULE ZoneImplRule ----------------------------
(***************************************************************************)
(* The implementation-shaped model continued for zones WITH a DST rule       *)
(* footer: ExtendTransitions() (the rule instants of 404 rule years appended *)
(* to the table, `last_year_` one less than the last generated year) and the *)
(* 400-year shift in BreakTime / MakeTime / TimeLocal.  MCRule checks with    *)
(* TLC, on real-range zones, that this design gives the answers of the       *)
(* declarative module Zone in every year of the 400-year cycle after the     *)
(* recorded data, at the seam, and many cycles later - and that every        *)
(* intermediate value the C++ computes in 64 bits stays inside int64         *)
(* (the arithmetic side of C10).                                            *)
(***************************************************************************)
EXTENDS ZoneImpl

K400 == WMulSmall(W(146097), 86400)                 \* seconds per 400 years
Fits(w) == InI64(w)

\* local civil year of the last recorded transition (the first generated rule year)
Y0(Z) == LocalCiv(LastAt(Z), LastType(Z).off)[1]
\* the rule instants of one rule year, ordered, as table entries without civil fields
RuleYear(Z, y) ==
  LET j == DaysFromCivil(y, 1, 1)
      leap == IsLeap(y)
      wd == (Weekday(j) + 1) % 7
      o == Z.rt[leap][wd]
      base == WMulSmall(j, 86400)
      st == [at |-> base \oplus W(o[1]), T |-> Z.rule.dstT]
      en == [at |-> base \oplus W(o[2]), T |-> Z.rule.stdT]
  IN  IF o[1] <= o[2] THEN <<st, en>> ELSE <<en, st>>
\* ExtendTransitions(): per year, the entries after the last recorded transition ("if (last_time < tb)
\* { if (last_time < ta) push ta; push tb; }")
RECURSIVE ExtYears(_, _, _)
ExtYears(Z, y, left) ==
  IF left = 0 THEN <<>>
  ELSE LET p == RuleYear(Z, y)
           la == LastAt(Z)
           keep == IF la \prec p[2].at THEN (IF la \prec p[1].at THEN p ELSE <<p[2]>>) ELSE <<>>
       IN  keep \o ExtYears(Z, y \oplus W(1), left - 1)
\* the whole table: recorded part (ZoneImpl!Table without the 2^31-1 sentinel) + generated part, with the
\* civil fields Load() computes afterwards.  Types are carried as records (the code interns them).
TableR(Z) ==
  LET file == [k \in 1..Z.n |-> [at |-> Z.at[k], T |-> Z.types[Z.ty[k]]]]
      t1 == IF Z.n = 0 \/ ~(Z.at[1] \prec WZero) THEN <<[at |-> BigBangT, T |-> Z.types[Z.dflt]]>> \o file ELSE file
      \* as repaired: generation starts with the year BEFORE the last entry's local year (a rule time beyond 24 h places that
      \* year's last change in the opening days of the next one; the pinned design started at Y0 and lost it)
      t2 == TLCEval(t1 \o ExtYears(Z, Y0(Z) \ominus W(1), 404))          \* forced once: it is indexed 2 x 800 times below
      prevT(i) == IF i = 1 THEN Z.types[Z.dflt] ELSE t2[i - 1].T
  IN  TLCEval([i \in 1..Len(t2) |->
         [at |-> t2[i].at, T |-> t2[i].T,
          cs |-> LocalCiv(t2[i].at, t2[i].T.off),
          pcs |-> CivPlus(LocalCiv(t2[i].at, prevT(i).off), W(-1))]])
LastYear(Z) == Y0(Z) \oplus W(401)

\* binary search: number of entries with at <= t / with civil_sec <= cs
RECURSIVE BsAt(_, _, _, _)
BsAt(T, t, lo, hi) == IF lo = hi THEN lo ELSE LET mid == (lo + hi + 1) \div 2 IN
                      IF T[mid].at \preceq t THEN BsAt(T, t, mid, hi) ELSE BsAt(T, t, lo, mid - 1)
RECURSIVE BsCs(_, _, _, _)
BsCs(T, cs, lo, hi) == IF lo = hi THEN lo ELSE LET mid == (lo + hi + 1) \div 2 IN
                       IF CivLeq(T[mid].cs, cs) THEN BsCs(T, cs, mid, hi) ELSE BsCs(T, cs, lo, mid - 1)

\* ---- BreakTime with the 400-year shift; `fits` collects the int64 obligations on intermediates ----
LookupR(Z, T, t) ==     \* t before the last entry: plain table lookup
  LET k == BsAt(T, t, 0, Len(T)) IN
  IF k = 0 THEN [T |-> Z.types[Z.dflt], cs |-> LocalCiv(t, Z.types[Z.dflt].off)]
  ELSE [T |-> T[k].T, cs |-> CivPlus(T[k].cs, t \ominus T[k].at)]
BreakR(Z, T, t) ==
  LET n == Len(T) IN
  IF t \prec T[n].at THEN LookupR(Z, T, t) @@ [fits |-> TRUE]
  ELSE \* after the last generated transition: shift back by whole 400-year cycles (in two steps, as repaired)
    LET diff == t \ominus T[n].at
        shift == WFloorDiv(diff, K400)[1] \oplus W(1)
        d1 == WMul(shift \ominus W(1), K400)
        t1 == t \ominus d1
        t2 == t1 \ominus K400
        r == LookupR(Z, T, t2)
    IN  [T |-> r.T, cs |-> <<r.cs[1] \oplus WMulSmall(shift, 400), r.cs[2], r.cs[3], r.cs[4], r.cs[5], r.cs[6]>>,
         fits |-> Fits(diff) /\ Fits(d1) /\ Fits(t1) /\ Fits(t2) /\ Fits(WMulSmall(shift, 400)) /\ (t2 \prec T[n].at)]

\* ---- MakeTime: the table part (no hints here: MCZoneImpl covers them) ----
UniqueR(t) == [kind |-> "UNIQUE", pre |-> t, trans |-> t, post |-> t]
MakeBaseR(Z, T, cs) ==
  LET n == Len(T)
      k == IF CivLess(cs, T[1].cs) THEN 0 ELSE IF CivLeq(T[n].cs, cs) THEN n ELSE BsCs(T, cs, 0, n) IN
  IF k = 0 THEN
    (IF CivLeq(cs, T[1].pcs) THEN
       (IF CivLess(cs, LocalCiv(TMin, Z.types[Z.dflt].off)) THEN UniqueR(TMin)
        ELSE UniqueR(CivDiff(cs, LocalCiv(WZero, Z.types[Z.dflt].off))))
     ELSE MkSkipped(T[1], cs))
  ELSE IF k = n THEN
    (IF CivLess(T[SameOff(T, n)].pcs, cs) THEN
       (IF CivLess(LocalCiv(TMax, T[n].T.off), cs) THEN UniqueR(TMax) ELSE UniqueR(T[n].at \oplus CivDiff(cs, T[n].cs)))
     ELSE MkRepeated(T[SameOff(T, n)], cs))
  ELSE IF CivLess(T[k + 1].pcs, cs) THEN MkSkipped(T[k + 1], cs)
  ELSE IF CivLeq(cs, T[SameOff(T, k)].pcs) THEN MkRepeated(T[SameOff(T, k)], cs)
  ELSE UniqueR(T[k].at \oplus CivDiff(cs, T[k].cs))
\* MakeTime with the year shift and TimeLocal's saturating compensation.  As repaired (ee7d828) the cycles are
\* added in steps of at most MaxStep = floor(TMax / K400) cycles, each representable, saturating at TMax only
\* when the running sum would really exceed it: the unshifted instant may precede the epoch (tables that end
\* before 1970 + 400), so the whole product shift * K400 need not fit although the sum does.  (The pinned design
\* - "IF MaxStep < shift THEN TMax" and one addition - fails MakeRefines on the zones whose data end before 1795.)
MaxStep == WFloorDiv(TMax, K400)[1]
RECURSIVE SatUp(_, _)
SatUp(x, left) ==           \* [v |-> x + left * K400 saturated at TMax, fits |-> every intermediate fits int64]
  IF ~(WZero \prec left) THEN [v |-> x, fits |-> TRUE]
  ELSE LET step == IF left \prec MaxStep THEN left ELSE MaxStep
           off == WMul(step, K400)
           lim == TMax \ominus off
       IN  IF lim \prec x THEN [v |-> TMax, fits |-> Fits(off) /\ Fits(lim)]
           ELSE LET nx == SatUp(x \oplus off, left \ominus step) IN
                [v |-> nx.v, fits |-> Fits(off) /\ Fits(lim) /\ Fits(x \oplus off) /\ nx.fits]
MakeR(Z, T, cs) ==
  LET n == Len(T)
      ly == LastYear(Z) IN
  IF CivLeq(T[n].cs, cs) /\ CivLess(T[n].pcs, cs) /\ ly \prec cs[1] THEN
    LET dy == (cs[1] \ominus ly) \ominus W(1)
        shift == WDiv(dy, 400) \oplus W(1)
        cs2 == <<cs[1] \ominus WMulSmall(shift, 400), cs[2], cs[3], cs[4], cs[5], cs[6]>>
        m == MakeBaseR(Z, T, cs2)
        a == SatUp(m.pre, shift)  b == SatUp(m.trans, shift)  c == SatUp(m.post, shift)
    IN  [r |-> [kind |-> m.kind, pre |-> a.v, trans |-> b.v, post |-> c.v],
         fits |-> Fits(dy) /\ a.fits /\ b.fits /\ c.fits /\ (ly \ominus W(400)) \prec cs2[1] /\ cs2[1] \preceq ly]
  ELSE [r |-> MakeBaseR(Z, T, cs), fits |-> TRUE]
=============================================================================
