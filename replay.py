"""bin/check <id> --replay <path>: re-run the deterministic check that produced the replay file (same
tier and seed, against /repo's current tree) and report whether the recorded class of violation
still occurs.  Exit 1 (with the VIOLATION line) if it does, 0 if it no longer does."""
import json
import os
import subprocess
import sys

ROOT = os.path.dirname(os.path.abspath(__file__))


def run(pid, path):
    rec = json.load(open(path))
    key = rec.get("key")
    env = dict(os.environ)
    env["VERIF_SEED"] = str(rec.get("seed", 1))
    tier = rec.get("tier", "quick")
    print("replaying %s: class %r (tier %s, seed %s)" % (path, key, tier, env["VERIF_SEED"]))
    print("recorded case: " + json.dumps(rec.get("case"))[:600])
    r = subprocess.run([os.path.join(ROOT, "bin", "check"), pid, tier], env=env, stdout=subprocess.PIPE, stderr=subprocess.PIPE, text=True)
    hit = False
    for ln in r.stdout.splitlines():
        if ln.startswith("VIOLATION"):
            p = ln.split("replay=")[-1].strip()
            try:
                if json.load(open(p)).get("key") == key:
                    hit = True
                    print(ln)
            except (OSError, ValueError):
                pass
        elif ln.startswith("KNOWN-FINDING") and key in ln:
            print(ln)
    print("the recorded violation class %s" % ("STILL OCCURS" if hit else "does not occur on the current tree"))
    return 1 if hit else 0
