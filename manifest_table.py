"""Source of truth for MANIFEST.json (bin/mkmanifest)."""
HOOK_COMMITS = ["960f1cc", "cb4b143"]
_TB = ("Trusted base: TLC 1.8 and the TLA+ module Wide (exact integers, model-checked against native ints in MCWide); "
       "the harness encoders (JSON/limb writer); clang UBSan in trap mode as the observer of undefined arithmetic; ")
CHECKS = {
 "C04": dict(level="model_checking", technique="TLA+ spec (CivilTime!Normalize) model-checked by TLC on the 146097-day cycle + TLC trace validation of constructor/conversion events from the real library under UBSan-trap",
   text="TLC proves on the specification (closed-form calendar = day-by-day stepping, idempotence, month-first carry) for every day of the cycle (thorough; segments in quick), and validates every logged constructor call of the real code against Normalize over exact integers, including that no call inside the representability domain traps.",
   note=_TB + "inputs are sampled (cycle days x 19 eras x biased 64-bit perturbations x calendar block boundaries), not all of int64^6."),
 "C05": dict(level="model_checking", technique="TLA+ spec (CivilTime!Add/Diff/Cmp) model-checked by TLC (inverse laws on the cycle) + TLC trace validation of +,-,difference,comparison events under UBSan-trap",
   text="Inverse and order laws are invariants of the specification checked by TLC for all six alignments on the cycle; each real a+n, a-n, a-b and comparison is validated against exact unit arithmetic, with ub=0 demanded whenever the mathematical result fits int64.",
   note=_TB + "operands sampled as for C04 plus n at the int64 limits and moves landing on calendar block boundaries."),
 "C17": dict(level="model_checking", technique="TLA+ spec (Gregorian!Weekday/YearDay, Next/PrevWeekday) model-checked on the whole cycle + TLC trace validation of get_weekday/get_yearday/next_weekday/prev_weekday events",
   text="Weekday successor law, yearday range and nearest-weekday laws are TLC invariants over every day of the cycle; every real call (each cycle day in thorough, replicated at 19 eras out to the int64 year limits) is validated against them.",
   note=_TB + "eras are a fixed list of 19 (mod-400-aligned) base years."),
}
_ZB = ("Trusted base: TLC 1.8; the TLA+ modules Wide, Gregorian, PosixTZ, TZif, Zone (the specification is the only oracle: it decodes the "
       "very bytes the library was given); the harness encoders (tzgen.py, JSON/limb writer); ASan+UBSan(trap) as observers. Functional "
       "answers are demanded only for zones satisfying Zone!WellFormed (the property's premise). ")
_ZT = ("TLA+ spec (TZif!Decode + Zone) model-checked by TLC on exhaustively enumerated small-world zones (MCZone) whose spec-computed answers are "
       "replayed into the real code, + TLC trace validation (ZoneTrace) of calls on shipped and generated real-range zones at spec-generated (GenPanel) and chain-derived instants")
CHECKS.update({
 "C01": dict(level="model_checking", technique=_ZT + " [Break/Load events]",
   text="Every lookup(t) of the real library on 170 (quick) / 2100 (thorough) zone files is compared by TLC with Zone!Break evaluated on the decoded bytes, at every sampled transition +-2 s, the rule seam, 400-year shifts out to time_point::max(); all small-world zones are replayed exhaustively.",
   note=_ZB + "Instants are sampled panels, not all 2^64."),
 "C02": dict(level="model_checking", technique=_ZT + " [Make events; preimage-count definition]",
   text="Zone!Make is defined by counting the instants that display cs; MCZone checks that definition against brute-force counting and the header inequalities on every small zone (limits inside the window), and every lookup(cs) of the real code on the civil panels (every second of short gaps/overlaps, edges of long ones, seam and shifted years, civil_second::min/max) is validated against it.",
   note=_ZB),
 "C03": dict(level="model_checking", technique=_ZT + " [RT/RT2 relation events + direct relation check on all small-world zones]",
   text="Round trip both ways is a TLC invariant of the specification on small worlds and is asserted directly on the real answers (RT, RT2 events; every instant of every small-world zone in replay_zone).",
   note=_ZB),
 "C06": dict(level="model_checking", technique=_ZT + " [Convert events on sorted civil panels; order carried as trace-spec state]",
   text="Order preservation is a TLC invariant on small worlds; on real zones the trace spec carries the previous (cs, result) of the zone as state and rejects any decrease, besides comparing each result with Zone!Convert.",
   note=_ZB),
 "C10": dict(level="model_checking", technique=_ZT + " [limit panels; ub flag of every call under ASan+UBSan-trap; saturation in Zone!Make]",
   text="Totality = every event of the limit panels (min/max +-2, +-2^59, +-2^31, outermost 2 days hourly, 400-year multiples, civil_second::min/max and the years just outside the reachable range) must carry ub=0 and the clamped answers Zone!Make prescribes; MCZone places TMin/TMax/BigBang inside the window.",
   note=_ZB + "Memory-safety/UB clause is observation by sanitizers on the explored inputs (exploration level for that clause)."),
 "C11": dict(level="model_checking", technique=_ZT + " [Next/Prev events, full forward/backward chains with chain bookkeeping as trace-spec state]",
   text="next/prev_transition answers are compared with the real changes the specification derives from the bytes (no-ops, big-bang entry, isdst-only and abbreviation-only changes included); complete chains from min() and max() must enumerate the same set; small-world zones replay every t.",
   note=_ZB + "Beyond the recorded data the spec demands exactness for 399 years and otherwise only that every reported transition is a real rule change (where the enumeration stops is unspecified)."),
 "C14": dict(level="model_checking", technique=_ZT + " [history panels: every hint bracket set by one query, then probes, validated by history-free operators]",
   text="The specification's operators take no history argument; the driver forces the hidden hint into each bracket (and long random call sequences) and every answer must still equal the history-free specification.",
   note=_ZB + "The name-cache clause (repeat loads return the first value without consulting the data source again, failed names keep failing) is checked in the same run by replaying 2-thread x 2-call behaviours of the Loader model into LoadTimeZone (LoaderTrace; class keys cache:*)."),
})
CHECKS["C16"] = dict(level="model_checking",
   technique="TLA+ recogniser-with-result PosixTZ!ParseSpec (the property's grammar over byte strings) + TLC trace validation of cctz::ParsePosixSpec verdict and fields under two struct pre-fills (UBSan-trap), and end-to-end TZif loads of the same sentences",
   text="Each of ~5.5k (quick) / ~100k (thorough) distinct sentences - every component swept over its values and boundaries, structural near misses, single-edit mutations, random bytes - is parsed by the real code twice with different pre-fills; TLC accepts the event only if verdict and every promised field equal ParseSpec; a sample is also loaded as a TZif footer (bad footer => load must fail).",
   note=_TB + "a leading ':' and '<>' as the dst abbreviation are left unconstrained (documented modelling decisions).")
CHECKS["C15"] = dict(level="model_checking",
   technique="TLA+ spec Fixed (OffsetToName/NameToOffset/OffsetToAbbr) model-checked exhaustively on all 180001 offsets + TLC trace validation of fixed_time_zone/load-by-name/lookup/factory-count events for every offset and of mutated name strings",
   text="Exhaustive on both sides: TLC checks round trip and abbreviation shape for every offset in [-90000, 90000]; the real library is driven for every one of those offsets (name, equality with load-by-name, 7 lookups across int64, zero data-source calls) and for thousands of single-edit name mutations (incl. NUL bytes, digits > 59, 24:00:01), each event decided by TLC against the spec.",
   note=_TB + "exhaustive for offsets; names are sampled mutations.")
_LT = ("TLA+ spec Loader (LoadTimeZone at critical-section granularity: name cache, load mutex, factory, returned values) model-checked by TLC "
       "(k<=3 threads quick, 4 thorough; invariants + Sticky + termination under weak fairness); behaviours of TLC's state graph replayed "
       "step by step into the real code through yield hooks and a blocking recording factory under ThreadSanitizer, observed abstract state "
       "compared with the model by TLC (LoaderTrace); attack schedules of the unserialised protocol; free-running stress histories")
_LB = ("Trusted base: TLC; spec/Loader.tla; ThreadSanitizer (races only on executed schedules); the harness scheduler. "
       "Verdicts rest on factory observations and returned values, not on the hooks. k > 4 threads only sampled (stress, 16/64 threads).")
CHECKS["C13"] = dict(level="model_checking", engine="tlc-gen-replay", technique=_LT + " [Agree/SeqEquiv, TSan reports, answers on shared zone values vs single-threaded reference]",
   text="Agree (equal names => identical value) and SeqEquiv (value = function of the name) are TLC invariants of the loader protocol for every interleaving of 2-3 (4) threads; the same interleavings are forced in the real code (edge cover + random walks of the state graph) and the returned values/identities compared; 16-64 free threads load and use shared zones under TSan with answers compared to single-threaded ones.",
   note=_LB)
CHECKS["C20"] = dict(level="model_checking", engine="tlc-gen-replay", technique=_LT + " [FactoryOnce/FactorySerial/NoFactoryForFixed on the model state reached with the real code; caller-thread check in the recording factory]",
   text="FactoryOnce, FactorySerial, NoFactoryForFixed are TLC invariants of the repaired protocol (and TLC finds them violated on the unserialised one - negative control). Every replayed behaviour re-checks them on observations (who is inside the factory after each step, calls per name, calling thread); schedules that violate them in the unserialised model are attempted against the code and must be unrealisable.",
   note=_LB)
CHECKS["C18"] = dict(level="model_checking",
   technique="TLA+ spec Split (SplitSeconds/Femtos/JoinSeconds/fraction rendering over exact integers) model-checked by TLC (floor, join-split, range-failure laws) + TLC trace validation of split_seconds, lookup/convert/format on time_point<D> and parse/join_seconds events for 13 duration types",
   text="The floor laws are TLC invariants on all counts -400..400 x 5 ratios; every real call of the template panel (each remainder class on both sides of the epoch, each representation's limits, int8/int16/int32 overflow boundaries) is validated by TLC against the same operators, including the rendered %s / %E#f / %E*f text.",
   note=_TB + "sub-second targets only inside their own range (header TODO #199 is outside the property).")
CHECKS["C19"] = dict(level="model_checking",
   technique="TLA+ spec Names (PathOf / LocalName decision table over env + recorded file system) with Fixed, TZif!Decode and Zone!Break as the meaning of the resolved data + TLC trace validation of one child process per environment (fixture tree incl. unreadable file via dropped privileges)",
   text="The decision table TZDIR x TZ x LOCALTIME x 38 name forms is enumerated completely (48 environments quick, 180 thorough); each row's ok / name() / equality with UTC / 8 lookups is decided by TLC from the environment values and the bytes found at the candidate paths.",
   note=_TB + "environment enumeration is exhaustive over the listed values, not over all strings; Android/Fuchsia fallbacks verified absent.")
CHECKS["C12"] = dict(level="fault_enumeration",
   technique="fault enumeration derived from the structure of the TLA+ decoder TZif!Decode (every count, version/magic byte, index, offset, 8-byte time edge, section-boundary truncation, footer sentence, full type table) + byte-level mutations; each mutated file loaded and queried under ASan(+container annotations)/UBSan-trap with a per-file alarm; TLC (ZoneTrace) decodes the same bytes and decides load class, ub=0 on every call and spec-equality when WellFormed; determinism by twin load and by identical logs under 4 stack/heap pre-fill patterns",
   text="What TLA+ decides: what each byte sequence means (must load / must fail / unconstrained, and the answers of a loaded WellFormed zone) and which fault classes exist. What it cannot decide - out-of-bounds access, uninitialised reads, UB inside the C++ - is observed: sanitizers on every execution, differing outcomes across memory pre-fills, an alarm for termination.",
   note="Trusted base: ASan/UBSan-trap/_GLIBCXX_SANITIZE_VECTOR and the pre-fill comparison as observers (they see only executed inputs); TLC + TZif/Zone; mutgen.py. Files whose header declares more than 64 MiB of data are excluded (the property presumes enough memory).")
_FT = ("TLA+ spec Format (scanner into internal specifiers and delegated stretches; rendering of every internal specifier from the lookup fields; strftime as an "
       "uninterpreted environment function) + TLC-exported stretch lists (GenFormat) so that the harness records libc's answer exactly where the specification delegates + TLC trace validation (FormatTrace)")
CHECKS["C08"] = dict(level="model_checking", technique=_FT + " of format() output under ASan+UBSan-trap",
   text="For ~3k (quick) / ~100k (thorough) format strings - repository literals, every internal/delegated/dangling token, token pairs around each scanner cut point, random token and byte sequences - x 15 zones x 34 instants x femtosecond classes, TLC recomputes the text from the lookup() fields of the same call and the recorded strftime graph and compares it with format()'s output; every call must be free of sanitizer findings.",
   note=_TB + "strftime itself is environment (C locale); formats containing NUL and delegated renderings that may exceed format()'s 16x buffer are left open; memory-safety clause = observation by ASan/UBSan on executed inputs.")
CHECKS["C07"] = dict(level="model_checking", technique=_FT + "; round-trip events format -> parse in a different zone for formats of the lossless family (membership re-checked by the TLA+ predicate Lossless)",
   text="Formats of the lossless family (year, date via month/day or week+weekday or locale names, H, M, full-precision seconds, full-resolution offset, or %s) in random order/separators x zones (incl. sub-minute and +-24h fixed offsets) x instants (years 0, 1, 9999/10000, int64 limits) x femtosecond classes: parse(fmt, format(fmt, t, tz), other_zone) must return exactly t (and the femtoseconds).",
   note=_TB + "two known findings are listed in known_findings.txt (offset of exactly +-24h; %e with single-digit days).")
CHECKS["C09"] = dict(level="model_checking",
   technique="TLA+ spec Parse (field grammar with widths/ranges, whitespace rules, offsets, fractions, %s short-circuit, leap second, week numbers, no-normalisation and int64 range rules; strptime as a recorded uninterpreted function for the delegated specifiers exported by GenParse) + TLC trace validation (ParseTrace) of detail::parse under ASan+UBSan-trap",
   text="~6k (quick) / ~150k (thorough) distinct (format, input) pairs - rendered from chosen field values, one field just outside its range, non-existent dates, single-character edits, int64 limits with offsets pushing across, ~130 directed corner cases, random bytes - in fixed-offset and real zones: TLC replays every call with Parse!ParseResult and compares verdict, instant and femtoseconds; every call must be free of sanitizer findings.",
   note=_TB + "strptime is environment (C locale), recorded at every input position; outcomes depending on strptime's internal bookkeeping and pairs containing NUL are left open; UB clause = observation on executed inputs.")
NOT_APPLICABLE = {}
