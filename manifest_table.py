"""Source of truth for MANIFEST.json (bin/mkmanifest)."""
HOOK_COMMITS = []
_TB = ("Trusted base: TLC 1.8 and the TLA+ module Wide (exact integers, model-checked against native ints in MCWide); "
       "the harness encoders (JSON/limb writer); clang UBSan in trap mode as the observer of undefined arithmetic; ")
CHECKS = {
 "C04": dict(level="model_checking", technique="TLA+ spec (CivilTime!Normalize) model-checked by TLC on the 146097-day cycle + TLC trace validation of constructor/conversion events from the real library under UBSan-trap",
   text="TLC proves on the specification (closed-form calendar = day-by-day stepping, idempotence, month-first carry) for every day of the cycle (thorough; segments in quick), and validates every logged constructor call of the real code against Normalize over exact integers, including that no call inside the representability domain traps.",
   note=_TB + "inputs are sampled (cycle days x 19 eras x biased 64-bit perturbations x calendar block boundaries), not all of int64^6."),
 "C05": dict(level="model_checking", technique="TLA+ spec (CivilTime!Add/Diff/Cmp) model-checked by TLC (inverse laws on the cycle) + TLC trace validation of +,-,difference,comparison events under UBSan-trap",
   text="Inverse and order laws are invariants of the specification checked by TLC for all six alignments on the cycle; each real a+n, a-n, a-b and comparison is validated against exact unit arithmetic, with ub=0 demanded whenever the mathematical result fits int64.",
   note=_TB + "operands sampled as for C04 plus n at the int64 limits and moves landing on calendar block boundaries."),
 "C17": dict(level="model_checking", technique="TLA+ spec (Gregorian!Weekday/YearDay, Next/PrevWeekday) model-checked on the whole cycle + TLC trace validation of get_weekday/get_yearday/next_weekday/prev_weekday events",
   text="Weekday successor law, yearday range and nearest-weekday laws are TLC invariants over every day of the cycle; every real call (each cycle day in thorough, replicated at 19 eras out to the int64 year limits) is validated against them.",
   note=_TB + "eras are a fixed list of 19 (mod-400-aligned) base years."),
}
NOT_APPLICABLE = {}
