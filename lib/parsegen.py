"""(format, input) pair generators for C09 (inputs only; the TLA+ spec decides verdict and instant)."""
import calendar
import random

MONTHS = ["Jan", "Feb", "Mar", "Apr", "May", "Jun", "Jul", "Aug", "Sep", "Oct", "Nov", "Dec"]
FULLM = ["January", "February", "March", "April", "May", "June", "July", "August", "September", "October", "November", "December"]
DAYS = ["Sun", "Mon", "Tue", "Wed", "Thu", "Fri", "Sat"]
I64MAX, I64MIN = 2 ** 63 - 1, -2 ** 63


def off_text(o, style):
    s = "-" if o < 0 else "+"
    a = abs(o)
    h, m, x = a // 3600, a // 60 % 60, a % 60
    if style == "z":
        return "%s%02d%02d" % (s, h, m)
    if style == "colon":
        return "%s%02d:%02d" % (s, h, m)
    if style == "full":
        return "%s%02d:%02d:%02d" % (s, h, m, x)
    if style == "h":
        return "%s%02d" % (s, h)
    return "%s%02d%02d%02d" % (s, h, m, x)


# templates: (format, renderer(fields)->text). fields: y m d H M S f(rac digits str) off wk wd
TEMPLATES = [
    ("%Y-%m-%d %H:%M:%S", lambda v: "%d-%02d-%02d %02d:%02d:%02d" % (v["y"], v["m"], v["d"], v["H"], v["M"], v["S"])),
    ("%Y-%m-%dT%H:%M:%E*S%Ez", lambda v: "%d-%02d-%02dT%02d:%02d:%02d%s%s" % (v["y"], v["m"], v["d"], v["H"], v["M"], v["S"], ("." + v["f"]) if v["f"] else "", off_text(v["off"], "colon"))),
    ("%Y-%m-%d%ET%H:%M:%S%z", lambda v: "%d-%02d-%02dT%02d:%02d:%02d%s" % (v["y"], v["m"], v["d"], v["H"], v["M"], v["S"], off_text(v["off"], "z"))),
    ("%E4Y%m%d %H%M%S %E*z", lambda v: "%s%02d%02d %02d%02d%02d %s" % (("%04d" % v["y"]) if v["y"] >= 0 else "-%03d" % -v["y"], v["m"], v["d"], v["H"], v["M"], v["S"], off_text(v["off"], "full"))),
    ("%d/%m/%Y %H.%M.%S.%E*f %::z", lambda v: "%02d/%02d/%d %02d.%02d.%02d.%s %s" % (v["d"], v["m"], v["y"], v["H"], v["M"], v["S"], v["f"] or "0", off_text(v["off"], "full"))),
    ("%Y week %U day %w at %H:%M", lambda v: "%d week %d day %d at %02d:%02d" % (v["y"], v["wk"], v["wd"], v["H"], v["M"])),
    ("%Y-W%W-%u %H:%M:%E3S", lambda v: "%d-W%02d-%d %02d:%02d:%02d.%s" % (v["y"], v["wk"], v["wd"] or 7, v["H"], v["M"], v["S"], (v["f"] + "000")[:3])),
    ("%s", lambda v: "%d" % v["s"]),
    ("x%sy", lambda v: "x%dy" % v["s"]),
    ("%H:%M:%E*S %Y %m %e", lambda v: "%02d:%02d:%02d%s %d %d %d" % (v["H"], v["M"], v["S"], ("." + v["f"]) if v["f"] else "", v["y"], v["m"], v["d"])),
    ("%Y%m%d%H%M%S%E6f", lambda v: "%d%02d%02d%02d%02d%02d%s" % (v["y"], v["m"], v["d"], v["H"], v["M"], v["S"], (v["f"] + "000000")[:6])),
    ("%Y-%m-%d %H:%M:%S %Z", lambda v: "%d-%02d-%02d %02d:%02d:%02d %s" % (v["y"], v["m"], v["d"], v["H"], v["M"], v["S"], "XYZ")),
    ("  %Y -%m- %d\t%H :%M", lambda v: "  %d -%02d-   %02d \n %02d :%02d  " % (v["y"], v["m"], v["d"], v["H"], v["M"])),
    ("%%%Y%%%m", lambda v: "%%%d%%%02d" % (v["y"], v["m"])),
    ("%Y-%m-%d %:z", lambda v: "%d-%02d-%02d %s" % (v["y"], v["m"], v["d"], off_text(v["off"], "colon"))),
    ("%Y-%m-%d %:::z", lambda v: "%d-%02d-%02d %s" % (v["y"], v["m"], v["d"], off_text(v["off"], "h"))),
    ("%Y-%m-%d %z", lambda v: "%d-%02d-%02d %s" % (v["y"], v["m"], v["d"], "Z")),
    # delegated specifiers (C locale)
    ("%d %b %Y %H:%M:%S", lambda v: "%02d %s %d %02d:%02d:%02d" % (v["d"], MONTHS[(v["m"] - 1) % 12], v["y"], v["H"], v["M"], v["S"])),
    ("%A, %B %d, %Y %I:%M:%S %p", lambda v: "%s, %s %02d, %d %02d:%02d:%02d %s" % ("Monday", FULLM[(v["m"] - 1) % 12], v["d"], v["y"], (v["H"] % 12) or 12, v["M"], v["S"], "PM" if v["H"] >= 12 else "AM")),
    ("%D %T", lambda v: "%02d/%02d/%02d %02d:%02d:%02d" % (v["m"], v["d"], v["y"] % 100, v["H"], v["M"], v["S"])),
    ("%y-%m-%d %R", lambda v: "%02d-%02d-%02d %02d:%02d" % (v["y"] % 100, v["m"], v["d"], v["H"], v["M"])),
    ("%F %r", lambda v: "%d-%02d-%02d %02d:%02d:%02d %s" % (v["y"], v["m"], v["d"], (v["H"] % 12) or 12, v["M"], v["S"], "PM" if v["H"] >= 12 else "AM")),
    ("%Y %j %H", lambda v: "%d %03d %02d" % (v["y"], min(v["d"] + 31 * (v["m"] - 1), 366), v["H"])),
    ("%C%y%m%d", lambda v: "%02d%02d%02d%02d" % (abs(v["y"]) // 100 % 100, v["y"] % 100, v["m"], v["d"])),
    ("%Y-%m-%d%n%H%t%M", lambda v: "%d-%02d-%02d \n%02d\t%02d" % (v["y"], v["m"], v["d"], v["H"], v["M"])),
    ("%Ey %Od %OH %EY", lambda v: "%02d %02d %02d %d" % (v["y"] % 100, v["d"], v["H"], v["y"])),
    ("%Y %h %e %l %p", lambda v: "%d %s %2d %2d %s" % (v["y"], MONTHS[(v["m"] - 1) % 12], v["d"], (v["H"] % 12) or 12, "pm" if v["H"] >= 12 else "am")),
]


def rand_fields(r, edge):
    y = r.choice([1970, 2024, 1, 0, -1, 9999, 10000, -999, -1000, 1600, 2000, 2100, 1999]) if r.random() < 0.6 else r.randrange(-3000, 12000)
    if edge and r.random() < 0.2:
        y = r.choice([292277026596, -292277022657, 292277026597, -292277022658, I64MAX, I64MIN, I64MAX // 2, 10 ** 12])
    m = r.randrange(1, 13)
    d = r.randrange(1, calendar.monthrange(2001 if y % 4 else 2004, m)[1] + 1)
    v = dict(y=y, m=m, d=d, H=r.randrange(24), M=r.randrange(60), S=r.randrange(60),
             f=r.choice(["", "5", "123", "000001", "123456789012345", "1234567890123456789", "999999999999999", "0", "50"]),
             off=r.choice([0, 3600, -3600, 19800, -16200, 86399, -86399, 1, -1, 59, 45296, -45296, 50400]),
             wk=r.randrange(0, 54), wd=r.randrange(0, 7), s=r.choice([0, 1, -1, 10 ** 9, I64MAX, I64MIN, I64MAX - 1, -2 ** 59, 253402300800]))
    if r.random() < 0.08:
        v["S"] = 60
    return v


def push_out(v, r):
    """One field just outside its documented range / a date that does not exist."""
    w = dict(v)
    k = r.choice(["m0", "m13", "d0", "d32", "H24", "M60", "S61", "wk54", "wd7", "feb30", "apr31", "feb29", "off24", "offm60", "y5"])
    if k == "m0": w["m"] = 0
    elif k == "m13": w["m"] = 13
    elif k == "d0": w["d"] = 0
    elif k == "d32": w["d"] = 32
    elif k == "H24": w["H"] = 24
    elif k == "M60": w["M"] = 60
    elif k == "S61": w["S"] = 61
    elif k == "wk54": w["wk"] = 54
    elif k == "wd7": w["wd"] = r.choice([7, 8])
    elif k == "feb30": w["m"], w["d"] = 2, 30
    elif k == "apr31": w["m"], w["d"] = r.choice([4, 6, 9, 11]), 31
    elif k == "feb29": w["m"], w["d"], w["y"] = 2, 29, r.choice([1900, 2001, 2100, 2023, 1999])
    elif k == "off24": w["off"] = r.choice([86400, -86400, 90000])
    elif k == "offm60": w["off"] = 3600 * 5 + 60 * 60
    elif k == "y5": w["y"] = r.choice([10000, -1000, 99999])
    return w


def pairs(seed, n):
    r = random.Random(seed)
    out = []
    alphabet = [bytes([b]) for b in b"0123456789+-:. TZz%/abMP\t\n\v\f\r\xa0\x85\xff"]
    for _ in range(n):
        fmt, ren = r.choice(TEMPLATES)
        v = rand_fields(r, True)
        k = r.random()
        try:
            if k < 0.45:
                out.append((fmt.encode(), ren(v).encode()))
            elif k < 0.7:
                out.append((fmt.encode(), ren(push_out(v, r)).encode()))
            else:
                s = ren(v).encode()
                i = r.randrange(len(s) + 1)
                e = r.random()
                if e < 0.3 and s:
                    s = s[:i] + s[i + 1:]
                elif e < 0.6:
                    s = s[:i] + r.choice(alphabet) + s[i:]
                elif e < 0.85:
                    s = s[:i] + r.choice(alphabet) + s[i + 1:]
                else:
                    s = r.choice([b" ", b"\t\n", b""]) + s + r.choice([b" ", b"  \n", b"x", b" x", b"."])
                out.append((fmt.encode(), s))
        except Exception:
            pass
    # directed cases
    D = [("%Y-%m-%d %H:%M:%S", "2015-06-30 23:59:60"), ("%Y-%m-%d %H:%M:%E*S", "2015-06-30 23:59:60.999"),
         ("%Y-%m-%d %H:%M:%E*S%Ez", "2015-12-31 23:59:60.5+00:00"), ("%Y-%m-%d %H:%M:%S %z", "9223372036854775807-12-31 23:59:59 +0000"),
         ("%Y-%m-%d %H:%M:%S %z", "292277026596-12-04 15:30:07 +0000"), ("%Y-%m-%d %H:%M:%S %z", "292277026596-12-04 15:30:08 +0000"),
         ("%Y-%m-%d %H:%M:%S %z", "292277026596-12-04 15:30:08 +0001"), ("%Y-%m-%d %H:%M:%S %z", "292277026596-12-05 14:30:07 +2300"),
         ("%Y-%m-%d %H:%M:%S %z", "-292277022657-01-27 08:29:52 +0000"), ("%Y-%m-%d %H:%M:%S %z", "-292277022657-01-27 08:29:51 +0000"),
         ("%Y-%m-%d %H:%M:%S %z", "-292277022657-01-27 08:29:51 -0001"), ("%Y-%m-%d %H:%M:%S", "-9223372036854775808-01-01 00:00:00"),
         ("%Y", "9223372036854775808"), ("%Y", "-9223372036854775809"), ("%Y", "-0"), ("%Y", "+5"), ("%Y", "00000000000000000000000012"),
         ("%s", "9223372036854775808"), ("%s", "-9223372036854775808"), ("%s", "-0"), ("%s %Y", "5 garbage"), ("%Y %s", "2020 77"),
         ("%m", "1"), ("%m", "001"), ("%m", "-1"), ("%d", "-5"), ("%H", "7"), ("%H:%M", "7:5"), ("%U", "000000000053"), ("%U", "54"),
         ("%E4Y", "2020"), ("%E4Y", "020"), ("%E4Y", "-999"), ("%E4Y", "-9999"), ("%E4Y", "12345"), ("%E4Y-%m", "999-11"), ("%E4Y%m", "202011"),
         ("%ET", "t"), ("%ET", "T"), ("%ET", "x"), ("%E*f", ""), ("%E*f", "x"), ("%S.%E*f", "05."), ("%E*S", "05."), ("%E*S", "05.x"),
         ("%E*S", "5"), ("%E3S", "05.123456"), ("%z", "+0000"), ("%z", "-00"), ("%z", "+1"), ("%z", "+12:30"), ("%Ez", "+12:3"), ("%Ez", "+12:30:15"),
         ("%Ez", "+1230"), ("%E*z", "z"), ("%:z", "Z"), ("%::z", "+01:02:03"), ("%:::z", "-01"), ("%:", "x"), ("%", "%"), ("%%", "%"), ("abc", "abc"),
         ("abc", "abd"), ("", ""), ("", " "), (" ", ""), ("%Y", ""), ("%Y ", "2020"), ("%Y", "2020 "), ("%Y", " 2020"), ("%Yx", "2020"),
         ("%Z", "UTC"), ("%Z", ""), ("%Z%Y", "EST2020"), ("%Z %Y", "EST 2020"), ("%Y-%m-%d", "2023-09-31"), ("%Y-%m-%d", "2024-02-29"),
         ("%Y-%m-%d", "2023-02-29"), ("%b %d", "Sep 31"), ("%b %d", "Sep 30"), ("%I %p", "12 AM"), ("%I %p", "12 PM"), ("%I:%M %p", "03:15 pm"),
         ("%p %I", "PM 03"), ("%H %p", "03 PM"), ("%Y %U %w", "2024 00 0"), ("%Y %U %w", "2024 00 6"), ("%Y %W %u", "2024 53 7"),
         ("%Y %U %u %m", "2024 10 3 12"), ("%U %w", "10 3"), ("%E", "x"), ("%E1", "1"), ("%Ec", "Thu Jan  1 00:00:00 1970"), ("%O", "x"),
         ("%c", "Thu Jan  1 00:00:00 1970"), ("%x %X", "01/01/70 00:00:00"), ("%Q", "x"), ("%5Y", "02020")]
    # long / awkward fractions (truncation, not rounding; more digits than femtoseconds; only a dot), whitespace forms,
    # sign forms and literal matching around numeric fields
    D += [("%E*S", "05.999999999999999"), ("%E*S", "05.9999999999999999"), ("%E*S", "05.99999999999999999999999999999999"),
          ("%E*S", "59.000000000000000999"), ("%E*f", "9999999999999999"), ("%E*f", "000000000000000"), ("%E*f", "0000000000000001"),
          ("%S.%E*f", "05.1"), ("%S.%E3f", "05.1234"), ("%E3S", "05.12"), ("%E3S", "05.123"), ("%E15S", "05.123456789012345"),
          ("%E15S", "05.1234567890123456"), ("%H:%M:%E*S", "23:59:60.999"), ("%H:%M:%E*S", "23:59:61"), ("%H:%M:%E*S", "24:00:00"),
          ("%Y-%m-%d %H", "2020-01-01\t\n 05"), ("%Y-%m-%d%H", "2020-01-0105"), ("%Y -%m", "2020-05"), ("%Y- %m", "2020-05"), ("%Y%%%m", "2020%05"),
          ("%Y%n%m", "2020 05"), ("%Y%t%m", "202005"), ("%m/%d/%Y", "1/2/2020"), ("%m/%d/%Y", " 1/ 2/2020"), ("%d", "+5"), ("%H", "+7"), ("%M", "-0"),
          ("%S", "+05"), ("%j", "366"), ("%Y %j", "2023 366"), ("%Y %j", "2024 366"), ("%Y %j", "2024 000"), ("%y", "69"), ("%y", "68"), ("%C%y", "2099"),
          ("%G %V %u", "2020 53 7"), ("%s", "+5"), ("%s", " 5"), ("%s", "5 "), ("%s%z", "5+0100"), ("%Ez", "+00:00"), ("%Ez", "-00:00"), ("%Ez", "+24:00"),
          ("%Ez", "+23:59"), ("%Ez", "-23:59"), ("%z", "+2359"), ("%z", "+2400"), ("%z", "+9959"), ("%E*z", "+23:59:59"), ("%E*z", "-00:00:01"),
          ("%E*z", "+00:00:60"), ("%::z", "+00:60:00"), ("%z %z", "+0100 -0100"), ("%Y %Y", "2020 2021"), ("%H %H", "05 06"), ("%S %s", "05 77"),
          ("%Y-%m-%d %H:%M:%S", "2020-01-02\v03:04:05"), ("%Y-%m-%d", "2020-01-02\f"), ("%Y-%m-%d", "\v\f\r2020-01-02"), ("%Y-%m-%d %Z", "2020-01-02 UTC\fjunk"),
          ("%Y-%m-%d %Z", "2020-01-02 UTC\vjunk"), ("%Y-%m-%d %Z", "2020-01-02 UTC\rjunk"), ("%Y %m", "2020\r\n05"), ("%Y %m", "2020\xa005"), ("%Y\v%m", "2020 05"),
          ("%Y\f%m", "2020\t05"), ("%Z", "A\x0bB"), ("%Z %Y", "A\x0c2020"),
          ("%H %Ez:%M", "10 +01:5"), ("%H:%M %E*z:%S", "10:00 +01:02:7"), ("%H %z:%M", "10 +01:5"), ("%H %Ez:%M", "10 +01:05"), ("%H %Ez %M", "10 +01: 5"),
          ("%H %E*z", "10 +01:02:"), ("%H %Ez", "10 +01:"), ("%H%Ez:", "10+01:"), ("%H %Ezx", "10 +01:3x"),
          ("%Y %U %a", "2017 01 Sun"), ("%Y %W %a", "2018 53 Mon"), ("%Y-W%U-%a %H:%M:%S", "2021-W10-Tue 08:30:15"), ("%A, week %U of %Y", "Friday, week 00 of 2024"),
          ("%a %U %Y", "Sat 52 2022"), ("%Y %W %A", "2024 01 Monday"), ("%Y %U %a", "2023 00 Sun"), ("%Y %U %a", "2023 01 Sun"), ("%Y %W %a %u", "2018 11 Wed 3"),
          ("%T", "00:00:61"), ("%T", "23:59:60"), ("%Y-%m-%d %T", "2016-12-31 23:59:60"), ("%OS", "61"), ("%OS", "60"), ("%c", "Thu Jan  1 00:00:61 1970"), ("%T.%E*f", "12:30:60.75"),
          ("%R:%S", "24:00:00"), ("%T", "24:00:00"), ("%D", "13/01/20"), ("%D", "02/30/20"), ("%F", "2020-02-30"),
          ("%Z %z", "UTC +0100"), ("%z %Z", "+0100 PST"), ("%Z", "Europe/Paris"), ("%Z", "A B")]
    out += [(a.encode(), b.encode()) for a, b in D]
    for _ in range(n // 10):     # unstructured pairs
        f = bytes(r.choice(b"%%%EYmdHMSzs:*4 -fT") for _ in range(r.randrange(0, 8)))
        s = bytes(r.choice(b"0123456789-+:. TZ\x00\xfe") for _ in range(r.randrange(0, 14)))
        out.append((f, s))
    return list(dict.fromkeys(out))


def transition_pairs(seed, frac=1.0):
    """(format, input) pairs without an offset field around the 2011 transitions of the three real zones the
    driver uses (and London's first, sub-minute one), with seconds 00 / 59 / 60: the answer depends on how the
    zone's gap or overlap and the leap-second carry interact.  Tried in every zone (tag A)."""
    r = random.Random(seed * 7919 + 1)
    dates = ["2011-03-13", "2011-11-06", "2011-03-27", "2011-10-30", "2011-04-03", "2011-10-02", "1847-12-01", "1847-11-30"]
    out = []
    for d in dates:
        for hh in (0, 1, 2, 3, 23):
            for mm in (0, 1, 29, 30, 59):
                for ss in (0, 14, 15, 59, 60):
                    if r.random() <= frac:
                        out.append((b"%Y-%m-%d %H:%M:%S", ("%s %02d:%02d:%02d" % (d, hh, mm, ss)).encode()))
                    if ss in (59, 60) and r.random() <= frac:
                        out.append((b"%Y-%m-%dT%H:%M:%E*S", ("%sT%02d:%02d:%02d.5" % (d, hh, mm, ss)).encode()))
    return out
