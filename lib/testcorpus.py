"""Inputs harvested from the repository's own test sources (inputs only - the specification decides every
answer): the format strings and (format, input) pairs that time_zone_format_test.cc uses, so that the
formats the maintainers care about are always part of the C08 / C09 / C07 panels."""
import os
import re

LIT = r'"((?:[^"\\\n]|\\.)*)"'
_ESC = {"n": b"\n", "t": b"\t", "\\": b"\\", '"': b'"', "'": b"'", "0": b"\0", "r": b"\r", "a": b"\a", "v": b"\v", "f": b"\f", "b": b"\b", "?": b"?"}


def unescape(s):
    out, i = bytearray(), 0
    while i < len(s):
        c = s[i]
        if c == "\\" and i + 1 < len(s):
            n = s[i + 1]
            if n == "x":
                m = re.match(r"[0-9a-fA-F]+", s[i + 2:])
                out.append(int(m.group(0)[-2:], 16) if m else ord("x"))
                i += 2 + (len(m.group(0)) if m else 0)
                continue
            if n in "01234567":
                m = re.match(r"[0-7]{1,3}", s[i + 1:])
                out.append(int(m.group(0), 8) & 255)
                i += 1 + len(m.group(0))
                continue
            out += _ESC.get(n, n.encode())
            i += 2
            continue
        out += c.encode("utf-8")
        i += 1
    return bytes(out)


def harvest(repo):
    """returns (formats, pairs): byte strings without NUL"""
    src = open(os.path.join(repo, "src", "time_zone_format_test.cc"), encoding="utf-8", errors="replace").read()
    src = re.sub(r"//[^\n]*", "", src)
    lits = [unescape(m.group(1)) for m in re.finditer(LIT, src)]
    fmts = sorted(set(l for l in lits if b"%" in l and 0 not in l and len(l) < 200))
    pairs = set()
    for m in re.finditer(r"parse\(\s*" + LIT + r"\s*,\s*" + LIT, src):
        f, s = unescape(m.group(1)), unescape(m.group(2))
        if 0 not in f and 0 not in s:
            pairs.add((f, s))
    # formats held in variables: pair every harvested format with the inputs seen next to any format
    inputs = sorted(set(s for _, s in pairs))
    return fmts, sorted(pairs), inputs
