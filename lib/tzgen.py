"""TZif file generator (harness side): turns an abstract zone description into bytes.

Only an *encoder*: it never computes what a zone should answer. The TLA+ side decodes the bytes
again (TZif!Decode) and decides from them whether the functional oracle applies (WellFormed).
"""
import os
import random
import struct


def _block(trans, types, abbrs, tl, isstd=None, isut=None, leaps=(), nodedup=False):
    chars = b""
    aidx = {}
    tidx = []          # designation index per type
    for a in abbrs:
        if nodedup:
            # every type gets a copy of its own (the same text at different indices), except that a designation which is
            # a proper suffix of the previous one points inside it, as zic does
            if tidx and len(abbrs[len(tidx) - 1]) > len(a) and abbrs[len(tidx) - 1].endswith(a):
                tidx.append(tidx[-1] + len(abbrs[len(tidx) - 1]) - len(a))
                continue
            tidx.append(len(chars))
            chars += a + b"\0"
            continue
        if a not in aidx:
            aidx[a] = len(chars)
            chars += a + b"\0"
        tidx.append(aidx[a])
    body = b""
    for at, _ in trans:
        body += struct.pack(">q" if tl == 8 else ">i", at)
    for _, ti in trans:
        body += struct.pack(">B", ti)
    for k, (off, dst, ab) in enumerate(types):
        body += struct.pack(">iBB", off, 1 if dst else 0, tidx[k])
    body += chars
    for lt, corr in leaps:
        body += struct.pack(">q" if tl == 8 else ">i", lt) + struct.pack(">i", corr)
    nstd = len(types) if isstd else 0
    nut = len(types) if isut else 0
    # standard/wall and UT/local indicators (RFC 8536: a UT indicator of 1 needs a standard indicator of 1): values that differ
    # between otherwise equal types - they say nothing about what lookup() reports
    std_b = bytes(1 if k % 4 in (1, 2) else 0 for k in range(nstd))
    ut_b = bytes(1 if (k % 4 == 1 and nstd) else 0 for k in range(nut))
    body += std_b + ut_b
    counts = struct.pack(">6i", nut, nstd, len(leaps), len(trans), len(types), len(chars))
    return counts, body


def tzif(version, trans, types, footer=None, fat=False, isstd=False, isut=False, leaps=(), nodedup=False):
    """trans: [(unix_time, type_index)], types: [(utoff, isdst, abbr-bytes)].
    version: 1..4. For version >= 2 the v1 block is minimal (slim) unless fat."""
    abbrs = [t[2] for t in types]
    if version == 1:
        t32 = [(a, i) for a, i in trans if -2 ** 31 <= a < 2 ** 31]
        counts, body = _block(t32, types, abbrs, 4, isstd, isut, leaps, nodedup=nodedup)
        return b"TZif" + b"\0" + b"\0" * 15 + counts + body
    vb = str(version).encode()
    if fat:
        t32 = [(a, i) for a, i in trans if -2 ** 31 <= a < 2 ** 31]
        c1, b1 = _block(t32, types, abbrs, 4, isstd, isut, nodedup=nodedup)
    else:
        c1, b1 = _block([], [(0, False, b"")], [b""], 4)   # what zic -b slim writes: one dummy type
    c2, b2 = _block(trans, types, abbrs, 8, isstd, isut, leaps, nodedup=nodedup)
    out = b"TZif" + vb + b"\0" * 15 + c1 + b1 + b"TZif" + vb + b"\0" * 15 + c2 + b2
    out += b"\n" + (footer or b"") + b"\n"
    return out


# ------------------------------------------------------------------ footer families
def fmt_off_posix(sec):
    """POSIX offset text for a UTC offset of `sec` seconds EAST (POSIX sign is inverted)."""
    v = -sec
    s = "-" if v < 0 else ""
    v = abs(v)
    h, m, x = v // 3600, v // 60 % 60, v % 60
    if x:
        return "%s%d:%02d:%02d" % (s, h, m, x)
    if m:
        return "%s%d:%02d" % (s, h, m)
    return "%s%d" % (s, h)


def fmt_time(sec):
    if sec is None:
        return ""
    s = "-" if sec < 0 else ""
    v = abs(sec)
    h, m, x = v // 3600, v // 60 % 60, v % 60
    if x:
        return "/%s%d:%02d:%02d" % (s, h, m, x)
    if m:
        return "/%s%d:%02d" % (s, h, m)
    return "/%s%d" % (s, h)


def abbr_text(ab):
    t = ab.decode("latin-1")
    if all(c.isalpha() for c in t) and len(t) >= 3:
        return t
    return "<" + t + ">"


TIMES = [None, 0, 2 * 3600 + 30 * 60 + 15, -3600, -3 * 3600, 24 * 3600, 25 * 3600, 26 * 3600 + 1800,
         167 * 3600, -167 * 3600, 3600, 7200, 3 * 3600, 23 * 3600 + 59 * 60 + 59]


def rand_date(r, season):
    """season 0: first half of the year, 1: second half."""
    form = r.choice("MMMJJNN")
    if form == "M":
        m = r.choice([1, 2, 3, 4, 5] if season == 0 else [8, 9, 10, 11, 12])
        return "M%d.%d.%d" % (m, r.choice([1, 2, 3, 4, 5, 5]), r.randrange(7))
    if form == "J":
        n = r.choice([1, 31, 58, 59, 60, 61, 90, 100] if season == 0 else [240, 274, 300, 305, 334, 364, 365])
        return "J%d" % n
    n = r.choice([0, 1, 30, 57, 58, 59, 60, 61, 90] if season == 0 else [240, 273, 300, 304, 335, 363, 364, 365])
    return "%d" % n


def rand_footer(r):
    """Returns (footer-bytes, std type, dst type or None)."""
    std_off = r.choice([0, 3600, -5 * 3600, -18000, 9 * 3600 + 1800, 12 * 3600 + 2700, -12 * 3600, 14 * 3600,
                        -(3 * 3600 + 1800), 5 * 3600 + 1800 + 15, -37, 20 * 3600, -23 * 3600 - 59 * 60])
    std_ab = r.choice([b"EST", b"AAA", b"CET", b"-03", b"+0530", b"LongStd", b"XYZW"])
    kind = r.choice(["dst"] * 6 + ["std"] * 2 + ["allyear"])
    if kind == "std":
        return (abbr_text(std_ab) + fmt_off_posix(std_off)).encode(), (std_off, False, std_ab), None
    delta = r.choice([3600, 3600, 3600, 1800, 7200, -3600, 1200])
    dst_off = std_off + delta
    dst_ab = r.choice([b"EDT", b"BBB", b"CEST", b"-02", b"+0630", b"LongDst"])
    if dst_ab == std_ab:
        dst_ab = b"DDD"
    txt = abbr_text(std_ab) + fmt_off_posix(std_off) + abbr_text(dst_ab)
    if delta != 3600 or r.random() < 0.3:
        txt += fmt_off_posix(dst_off)
    if kind == "allyear":
        # what zic writes for permanent DST: start 0/0, end J365/(24h + std - dst)
        # (end time + std - dst == 86400)  => end time = 86400 - (std - dst)
        txt += ",0/0,J365" + fmt_time(86400 - (std_off - dst_off))
        return txt.encode(), (std_off, False, std_ab), (dst_off, True, dst_ab)
    south = r.random() < 0.35
    d1, d2 = rand_date(r, 0), rand_date(r, 1)
    t1, t2 = r.choice(TIMES), r.choice(TIMES)
    if south:
        txt += "," + d2 + fmt_time(t1) + "," + d1 + fmt_time(t2)
    else:
        txt += "," + d1 + fmt_time(t1) + "," + d2 + fmt_time(t2)
    return txt.encode(), (std_off, False, std_ab), (dst_off, True, dst_ab)


def rand_zone(r, idx):
    """One consistent generated zone: (name, bytes)."""
    version = r.choice([2, 2, 2, 3, 4, 2, 1])
    footer, stdT, dstT = rand_footer(r) if version != 1 else (None, None, None)
    if version != 1 and r.random() < 0.08:
        footer, stdT, dstT = b"", None, None                   # v2+ with an empty footer
    types = []
    lmt = (r.choice([-17762, -75, 3600 + 1172, 8 * 3600 + 24 * 60 + 25, 0, -14 * 3600 - 1, 53 * 60 + 28]), False, b"LMT")
    types.append(lmt)
    base = stdT or (r.choice([0, 3600, -18000, 19800]), False, b"STD")
    alt = dstT or (base[0] + 3600, True, b"DST")
    types += [base, alt]
    extra = r.random()
    if extra < 0.25:
        # abbreviation-only change target: an unrelated name, or one that extends / is a prefix of the current one
        types.append((base[0], False, r.choice([b"NEW", base[2] + b"X", base[2] + b"00", base[2][:max(1, len(base[2]) - 1)], b"NEW"])))
    elif extra < 0.5:
        types.append((base[0], True, base[2]))                  # isdst-only change target
    elif extra < 0.65:
        types.append((base[0], False, base[2]))                 # equivalent duplicate type (no-op target)
    nt = r.choice([0, 1, 2, 3, 3, 5, 8])
    t = r.choice([-2 ** 31 - 86400 * 365 * 30, -2208988800, -1500000000, -631152000, 0, 86400 * 365, 946684800])
    trans = []
    if r.random() < 0.2:
        trans.append((-2 ** 59, r.choice([0, 0, 1])))          # pre-2018f zic "big bang" entry
    cur = 0
    for k in range(nt):
        t += r.choice([86400 * 180, 86400 * 200, 86400 * 365 * 3, 86400 * 3 + 7200, 86400 * 1000 + 1])
        choices = [i for i in range(len(types)) if i != 0]
        nxt = r.choice(choices)
        if r.random() < 0.12:
            nxt = cur                                            # literal no-op (same type index)
        trans.append((t, nxt))
        cur = nxt
    # make the tail agree with the footer: last recorded type = the footer's standard type
    # (for a DST rule this is where the rule takes over; for std-only / all-year the code demands it)
    if footer is not None and footer != b"":
        want = 1 if (dstT is None or b",0/0,J365" not in footer) else 2
        t += 86400 * 400
        if not trans or trans[-1][1] != want:
            trans.append((t, want))
    if version == 1:
        trans = [(a, i) for a, i in trans if -2 ** 31 <= a < 2 ** 31]
    fat = r.random() < 0.3
    # the same designation text stored more than once / shared tails (different indices, equal text)
    nodedup = r.random() < 0.2
    data = tzif(version, trans, types, footer, fat=fat, isstd=r.random() < 0.3, isut=r.random() < 0.3, nodedup=nodedup)
    tag = (footer or b"nofooter").decode("latin-1").replace("/", "_").replace("<", "(").replace(">", ")")
    return "gen/%04d-v%d%s-%s" % (idx, version, "n" if nodedup else "", tag[:40]), data


# footers on which earlier probing found the library wrong (kept in every run so that the
# behaviour class is always exercised): rule times that cross a year boundary
SPECIAL_FOOTERS = [b"AAA5BBB,M3.2.0,J338/11:30", b"AAA5BBB,J338/10:30,M12.5.0",      # a change within seconds of time_point::max()
                   b"AAA5BBB,J338/11,M12.5.0", b"AAA5BBB,M3.2.0,J338/12",            # a gap / an overlap whose change lies just beyond max()
                   b"AAA5BBB,0/-1,J300/0", b"AAA5BBB,J1/-167,J200", b"AAA-3BBB,M1.1.1/-167,M7.1.0",
                   b"AAA5BBB,M3.2.0,365/25", b"AAA5BBB,J60,J300", b"AAA5BBB,59,J300/26:30",
                   # the order of start and end inside a year depends on the year (dates less than a week apart in forms that drift apart)
                   b"AAA5BBB,M3.2.0,J70/12", b"AAA5BBB,M3.2.0/2,M3.2.3/14",
                   # both changes of a rule year fall in the closing hours of the year before
                   b"AAA5BBB,0/-6,0/-2"]


def special_zone(i, footer):
    types = [(-1000, False, b"LMT"), (-18000 if b"AAA5" in footer else 10800, False, b"AAA"),
             (-14400 if b"AAA5" in footer else 14400, True, b"BBB")]
    trans = [(-2000000000, 1), (1000000000, 2), (1010000000, 1)]
    return "gen/special-%d-%s" % (i, footer.decode().replace("/", "_")), tzif(2, trans, types, footer)


def spill_zone(i, footer, last, last_type=2):
    """The last recorded entry lies in the opening days of a civil year while a rule period of the PREVIOUS rule year is still
    open (rule time beyond 24 h): the footer's next change is that period's end, a few days later in the same civil year."""
    types = [(-1000, False, b"LMT"), (0, False, b"AAA"), (3600, True, b"BBB")]
    trans = [(-2000000000, 1), (923702400, 2), (last, last_type)]           # 1999-04-10 -> BBB, then the entry in early January
    return "gen/special-spill-%d-%s" % (i, footer.decode().replace("/", "_")), tzif(3, trans, types, footer)


def late_zone(i, footer, last):
    """Recorded data that end shortly below +2^59 (the largest instant the loader accepts): the 400 generated rule years pass it."""
    types = [(-17762, False, b"LMT"), (-18000, False, b"EST"), (-14400, True, b"EDT")]
    return "gen/special-late-%d-%s" % (i, footer.decode().replace("/", "_")), tzif(2, [(-2000000000, 1), (last - 86400 * 150, 2), (last, 1)], types, footer)


def fresh_types_zone(i, footer):
    """The recorded data use types the footer does not (the loader has to create the footer's types itself)."""
    types = [(-1234, False, b"LMT"), (-18000, False, b"OLD")]
    return "gen/fresh-%d-%s" % (i, footer.decode().replace("/", "_")), tzif(3, [(-1000000000, 1)], types, footer)


def old_zone(i, footer, last):
    """All recorded data long before 1970 (so the 2038 sentinel and the rule extension interact)."""
    types = [(-17762, False, b"LMT"), (-18000, False, b"EST"), (-14400, True, b"EDT")]
    return "gen/old-%d-%s" % (i, footer.decode().replace("/", "_")), tzif(2, [(last, 1)], types, footer)


def desig_zones():
    """Recorded-data-only zones in which an entry that changes the designation (or the DST flag) ALONE stands within an offset
    change's reach - the literal reading of "changes of the offset farther apart than the sum of their sizes" (Zone!WellFormedD)."""
    T, U = 1130652000, 1143961200         # 2005-10-30 06:00Z (fall back), 2006-04-02 07:00Z (spring forward)
    L = (-17762, False, b"LMT")
    E, D = (-18000, False, b"EST"), (-14400, True, b"EDT")
    X, XD, EI = (-18000, False, b"XST"), (-14400, True, b"XDT"), (-18000, True, b"EST")
    base = [(-2717650800, 1), (1112511600, 2)]          # LMT -> EST 1883, EST -> EDT April 2005
    fams = [
        ("after-fall-back", [L, E, D, X], base + [(T, 1), (T + 1800, 3)]),
        ("after-spring-forward", [L, E, D, XD], base + [(T, 1), (U, 2), (U + 1800, 3)]),
        ("before-spring-forward", [L, E, D, X], base + [(T, 1), (U - 1800, 3), (U, 2)]),
        ("before-fall-back", [L, E, D, XD], base + [(T - 1800, 3), (T, 1)]),
        ("dst-flag-after-fall-back", [L, E, D, EI], base + [(T, 1), (T + 600, 3)]),
        ("two-after-fall-back", [L, E, D, X, EI], base + [(T, 1), (T + 900, 3), (T + 2700, 4)]),
    ]
    out = []
    for i, (what, types, trans) in enumerate(fams):
        out.append(("gen/desig-%d-%s" % (i, what), tzif(2, trans, types, b"")))
    return out


def write_corpus(outdir, seed, n):
    os.makedirs(outdir, exist_ok=True)
    r = random.Random(seed)
    out = []
    items = [special_zone(i, f) for i, f in enumerate(SPECIAL_FOOTERS)]
    items += [old_zone(0, b"EST5EDT,M3.2.0,M11.1.0", -14830000000), old_zone(1, b"EST5EDT,M4.5.0,M10.5.0", -3000000000),
              old_zone(2, b"EST5EDT,M3.2.0,M11.1.0", -12700000000), old_zone(3, b"EST5EDT,J60,J300", -86400 * 200),
              # data ending between 1568 and 1794: the generated table reaches past 1970 but ends before 2196, so the
              # last 400-year cycle before max() is reached through one cycle shift more than fits int64 seconds
              old_zone(4, b"EST5EDT,M3.2.0,M11.1.0", -10535032704), old_zone(5, b"EST5EDT,M4.5.0,M10.5.0", -6000000000),
              # data ending in year -201 (last_year_ = 200, not negative) and in year 1200
              old_zone(6, b"EST5EDT,M3.2.0,M11.1.0", -68500000000), old_zone(7, b"EST5EDT,M3.2.0,M11.1.0", -24299000000)]
    # 2000-01-02: inside the spill of the 1999 period of "J100/0,J365/167" (ends 2000-01-06T22:00Z); a no-op entry and a real one
    items += [spill_zone(0, b"AAA0BBB,J100/0,J365/167", 946771200), spill_zone(1, b"AAA0BBB,J100/0,J365/100", 946771200)]
    items += [late_zone(0, b"EST5EDT,M3.2.0,M11.1.0", 2 ** 59 - 100 * 365 * 86400), late_zone(1, b"EST5EDT,M3.2.0,M11.1.0", 2 ** 59 - 86400)]
    items += [fresh_types_zone(0, b"NEW5NDT,0/-6,0/-2"), fresh_types_zone(1, b"NEW5NDT,M3.2.0,M11.1.0"), fresh_types_zone(2, b"OLD5NDT,J338/11,M12.5.0")]
    items += [rand_zone(r, i) for i in range(n)]
    for name, data in items:
        p = os.path.join(outdir, name.replace("/", "_") + ".tzif")
        with open(p, "wb") as f:
            f.write(data)
        out.append((name, p))
    return out


def is_ancient_dst(data):
    """TZif data with a DST-rule footer whose recorded transitions all lie before 1568 (so that the
    402 generated years end before 1970): the class of known finding C01/ancient-dst-zone."""
    import struct
    try:
        if data[:4] != b"TZif" or data[4] == 0:
            return False
        c = struct.unpack(">6i", data[20:44])
        o = 44 + c[3] * 5 + c[4] * 6 + c[5] + c[2] * 8 + c[1] + c[0]
        c2 = struct.unpack(">6i", data[o + 20:o + 44])
        o += 44
        last = struct.unpack(">q", data[o + (c2[3] - 1) * 8:o + c2[3] * 8])[0] if c2[3] else -2 ** 59
        end = o + c2[3] * 9 + c2[4] * 6 + c2[5] + c2[2] * 12 + c2[1] + c2[0]
        footer = data[end + 1:].split(b"\n")[0]
        return b"," in footer and last < -12686371200
    except Exception:
        return False


def ancient_negative_last_year(data):
    """ancient DST zone whose generated table ends in a negative year (no transitions, or data ending before year -402):
    the sub-class (last_year_ < 399) in which `cs.year() - last_year_` or `shift * -400` overflows for civil years near INT64_MAX"""
    import struct
    try:
        c = struct.unpack(">6i", data[20:44])
        o = 44 + c[3] * 5 + c[4] * 6 + c[5] + c[2] * 8 + c[1] + c[0]
        c2 = struct.unpack(">6i", data[o + 20:o + 44])
        o += 44
        last = struct.unpack(">q", data[o + (c2[3] - 1) * 8:o + c2[3] * 8])[0] if c2[3] else -2 ** 59
        return is_ancient_dst(data) and last < -62200000000
    except Exception:
        return False


def shipped_zones(repo="/repo"):
    root = os.path.join(repo, "testdata", "zoneinfo")
    out = []
    for d, _, fs in os.walk(root):
        for f in fs:
            p = os.path.join(d, f)
            try:
                with open(p, "rb") as fh:
                    if fh.read(4) == b"TZif":
                        out.append((os.path.relpath(p, root), p))
            except OSError:
                pass
    out.sort()
    return out
