"""Fault enumeration for C12: mutated TZif files.  The fault classes follow the structure that
spec/TZif.tla decodes (header counts, versions, indices, offsets, transition times, section
boundaries, footer); byte-level mutations are added on top.  Inputs only - TLC classifies each
result from its bytes."""
import random
import struct

import posixgen


def parse_layout(b):
    """Offsets of the block that matters (v1: first; v2+: second). None if not even a header."""
    if len(b) < 44 or b[:4] != b"TZif":
        return None
    c1 = struct.unpack(">6i", b[20:44])
    lay = {"h1": 0, "v1": b[4] == 0}
    o = 44
    tl = 4
    if b[4] != 0:
        o += c1[3] * 5 + c1[4] * 6 + c1[5] + c1[2] * 8 + c1[1] + c1[0]
        if len(b) < o + 44:
            return None
        lay["h2"] = o
        c = struct.unpack(">6i", b[o + 20:o + 44])
        o += 44
        tl = 8
    else:
        c = c1
    isut, isstd, leap, timecnt, typecnt, charcnt = c
    lay.update(hdr=(lay.get("h2", 0)), tl=tl, timecnt=timecnt, typecnt=typecnt, charcnt=charcnt, leapcnt=leap,
               times=o, idx=o + timecnt * tl, types=o + timecnt * tl + timecnt,
               chars=o + timecnt * tl + timecnt + typecnt * 6)
    lay["end"] = lay["chars"] + charcnt + leap * (tl + 4) + isstd + isut
    return lay


def declared_length(b):
    """Bytes the loader would allocate for the data block of the header it uses (0 if it never gets there)."""
    if len(b) < 44 or b[:4] != b"TZif":
        return 0
    c = struct.unpack(">6i", b[20:44])
    if min(c) < 0:
        return 0
    tl = 4
    if b[4] != 0:
        o = 44 + c[3] * 5 + c[4] * 6 + c[5] + c[2] * 8 + c[1] + c[0]
        if len(b) < o + 44 or b[o:o + 4] != b"TZif":
            return 0
        c = struct.unpack(">6i", b[o + 20:o + 44])
        if min(c) < 0:
            return 0
        tl = 8
    return (tl + 1) * c[3] + 6 * c[4] + c[5] + (tl + 4) * c[2] + c[1] + c[0]


def put(b, off, data):
    return b[:off] + data + b[off + len(data):]


def structured(b, r):
    """Yields (tag, bytes)."""
    L = parse_layout(b)
    if L is None:
        return
    hdrs = [0] + ([L["h2"]] if "h2" in L else [])
    # 1. header counts
    names = ["isutcnt", "isstdcnt", "leapcnt", "timecnt", "typecnt", "charcnt"]
    for h in hdrs:
        cur = struct.unpack(">6i", b[h + 20:h + 44])
        for k in range(6):
            # the property assumes enough memory for the length the header declares: in the header that
            # is actually used the largest count is capped so that the declared length stays below 64 MiB
            big = 2 ** 31 - 1 if (h != hdrs[-1]) else 6000000
            for v in {0, 1, cur[k] + 1, max(cur[k] - 1, 0), cur[k] * 2, 255, 256, 257, 65535, big, -1, -2 ** 31}:
                if v != cur[k]:
                    yield "count:%s@%d=%d" % (names[k], h, v), put(b, h + 20 + 4 * k, struct.pack(">i", v))
        # 2. magic / version
        for i in range(4):
            yield "magic@%d[%d]" % (h, i), put(b, h + i, bytes([b[h + i] ^ 0x20]))
        for v in (0, 0x31, 0x32, 0x33, 0x34, 0x35, 0xff):
            if v != b[h + 4]:
                yield "version@%d=%d" % (h, v), put(b, h + 4, bytes([v]))
    tl, tc, yc, cc = L["tl"], L["timecnt"], L["typecnt"], L["charcnt"]
    # 3. type indices of transitions
    for k in sorted(set([0, tc // 2, tc - 1])) if tc else []:
        for v in (yc, yc + 1, 255, max(yc - 1, 0)):
            if v < 256:
                yield "tidx[%d]=%d" % (k, v), put(b, L["idx"] + k, bytes([v]))
    # 4./5. ttinfo
    for k in sorted(set([0, yc - 1])) if yc else []:
        o = L["types"] + 6 * k
        for v in (cc, max(cc - 1, 0), 255):
            yield "abbridx[%d]=%d" % (k, v), put(b, o + 5, bytes([min(v, 255)]))
        for v in (86400, -86400, 86399, -86399, 2 ** 31 - 1, -2 ** 31, 90000, -90000, 43200 * 3):
            yield "utoff[%d]=%d" % (k, v), put(b, o, struct.pack(">i", v))
        for v in (2, 255):
            yield "isdst[%d]=%d" % (k, v), put(b, o + 4, bytes([v]))
    # 6. transition times
    if tc:
        fmt = ">q" if tl == 8 else ">i"
        big = ([2 ** 59, -2 ** 59, 2 ** 59 + 1, -2 ** 59 - 1, -2 ** 59 + 1, 2 ** 62, -2 ** 62, 2 ** 63 - 1, -2 ** 63, 2 ** 63 - 2, -2 ** 63 + 1,
                2 ** 31, -2 ** 31 - 1] if tl == 8 else [2 ** 31 - 1, -2 ** 31])
        for v in big:
            yield "time[last]=%d" % v, put(b, L["times"] + (tc - 1) * tl, struct.pack(fmt, v))
            yield "time[first]=%d" % v, put(b, L["times"], struct.pack(fmt, v))
        if tc >= 2:
            a = b[L["times"]:L["times"] + tl]
            c = b[L["times"] + tl:L["times"] + 2 * tl]
            yield "times-swapped", put(put(b, L["times"], c), L["times"] + tl, a)
            yield "times-equal", put(b, L["times"] + tl, a)
            k = tc // 2
            t0 = struct.unpack(fmt, b[L["times"] + (k - 1) * tl:L["times"] + k * tl])[0]
            for d in (1, 2, 3, 3600):
                yield "times-close+%d" % d, put(b, L["times"] + k * tl, struct.pack(fmt, t0 + d))
    # 7. truncation at section boundaries
    for name in ("hdr", "times", "idx", "types", "chars", "end"):
        for d in (-1, 0, 1):
            cut = L[name] + d if name != "hdr" else L["hdr"] + 44 + d
            if 0 <= cut < len(b):
                yield "trunc@%s%+d" % (name, d), b[:cut]
    for d in (1, 2, 5):          # ... and inside the footer (the closing newline, the last characters of the rule)
        if len(b) > d:
            yield "trunc@last-%d" % d, b[:len(b) - d]
    # ... and data appended after a complete file (allowed: readers ignore what follows the footer)
    for tail in (b"\n", b"X", b"\x00", b"\nTZif2" + b"\x00" * 40, bytes(range(256))):
        yield "append+%d" % len(tail), b + tail
    # 8. footer
    if not L["v1"]:
        body = b[:L["end"]]
        yield "footer-no-first-nl", body + b"EST5\n"
        yield "footer-no-last-nl", body + b"\nEST5"
        yield "footer-missing", body
        yield "footer-empty", body + b"\n\n"
        yield "footer-long", body + b"\n" + b"A" * 5000 + b"5\n"
        yield "footer-extra-after", body + b"\nEST5\nGARBAGE\x00\xff"
        # rules inside the grammar whose geometry is odd: a DST period shorter than its own saving (the fall-back
        # crosses the spring-forward on the local time line), start = end, a saving of a whole day
        for s in (b"AAA0BBB-2,J100/0,J100/2:30", b"AAA12BBB-12,J100/0,J101/6", b"AAA0BBB-1,J100/0,J100/0", b"AAA0BBB-2,J100/3,J100/2",
                  b"AAA5BBB4:59:59,M3.2.0,M3.2.0/2", b"AAA24BBB-24,0/0,J365/100", b"XXX0YYY,0/0,J365/25:30", b"XXX0YYY,J100/2,J100/3",
                  b"AAA5BBB,J1/0,J365/25", b"XXX0YYY,M1.1.0,M6.1.0", b"AAA5BBB,0/-2,J1/-100", b"AAA5BBB,J1/-30,0/-80"):
            yield "footer-odd=%s" % s.decode(), body + b"\n" + s + b"\n"
        for s in r.sample(posixgen.sentences(r.randrange(10 ** 6), 40), 25):
            if b"\n" not in s:
                yield "footer=%r" % s[:30], body + b"\n" + s + b"\n"
    # 10. leap seconds declared
    h = L["hdr"]
    yield "leapcnt=1+data", put(b, h + 28, struct.pack(">i", 1))[:L["chars"] + cc] + b"\0" * (tl + 4) + b[L["chars"] + cc:]


def type_table_full(r):
    """256 types so that a footer needing new types cannot get them."""
    import tzgen
    types = [(i * 10, i % 2 == 1, b"T%02d" % (i % 40)) for i in range(256)]
    trans = [(200000 * i, i % 256) for i in range(1, 300)]
    yield "types-256+new-footer", tzgen.tzif(2, trans, types, b"NEW5NDT,M3.2.0,M11.1.0")
    yield "types-256+std-footer", tzgen.tzif(2, trans, types, b"XYZ-3")
    # every type daylight-saving (the search for a standard-time default type finds none), type 0 in use
    # ... also with more types than a one-byte index can name (257, 258, 300: the surplus can never be referenced, but the
    # search for the default type walks the whole table)
    for n in (256, 255, 2, 257, 258, 300):
        yield "types-%d-all-dst" % n, tzgen.tzif(2, [(200000 * i, (i - 1) % min(n, 256)) for i in range(1, 40)],
                                                  [(i * 10, True, b"D%02d" % (i % 40)) for i in range(n)], b"XYZ-3")
    types = types[:254]
    trans = [(200000 * i, i % 254) for i in range(1, 300)]
    yield "types-254+new-footer", tzgen.tzif(2, trans, types, b"NEW5NDT,M3.2.0,M11.1.0")
    yield "types-255", tzgen.tzif(2, [(200000 * i, i % 255) for i in range(1, 300)], [(i * 10, i % 2 == 1, b"T%02d" % (i % 40)) for i in range(255)], b"NEW5NDT,M3.2.0,M11.1.0")


def bytelevel(files, r, n):
    for _ in range(n):
        b = bytearray(r.choice(files))
        k = r.random()
        if k < 0.35:
            for _ in range(r.choice([1, 1, 2, 4, 16])):
                i = r.randrange(len(b))
                b[i] ^= 1 << r.randrange(8)
            yield "bitflip", bytes(b)
        elif k < 0.5:
            for _ in range(r.choice([1, 2, 8])):
                b[r.randrange(len(b))] = r.choice([0, 1, 0x7f, 0x80, 0xff, 0x0a])
            yield "byteset", bytes(b)
        elif k < 0.65:
            o = r.choice(files)
            i, j = r.randrange(len(b)), r.randrange(len(o))
            yield "splice", bytes(b[:i]) + o[j:][:65536]
        elif k < 0.8:
            yield "truncate", bytes(b[:r.randrange(len(b))])
        elif k < 0.9:
            i = r.randrange(len(b))
            yield "insert", bytes(b[:i]) + bytes(r.randrange(256) for _ in range(r.choice([1, 4, 8]))) + bytes(b[i:])
        else:
            yield "random", b"TZif" + bytes(r.randrange(256) for _ in range(r.randrange(0, 200)))
