"""Shared machinery for the cctz TLA+ verification checks.

Everything a check needs: hash-keyed builds of /repo's *current working tree* under
/verif/build, TLC invocation (model checking and trace validation), evidence writing,
known-findings matching and the VIOLATION / KNOWN-FINDING protocol.
"""
import concurrent.futures as cf
import hashlib
import json
import os
import re
import shutil
import subprocess
import sys
import time

ROOT = os.path.dirname(os.path.dirname(os.path.abspath(__file__)))
REPO = os.environ.get("VERIF_REPO", "/repo")
BUILD = os.path.join(ROOT, "build")
SPEC = os.path.join(ROOT, "spec")
HARNESS = os.path.join(ROOT, "harness")
# evidence describes runs against /repo itself; a run against a scratch tree (bin/seedtest) writes elsewhere
EVID = os.path.join(ROOT, "evidence") if os.path.realpath(REPO) == "/repo" else os.path.join(ROOT, "build", "scratch-evidence")
REPLAY = os.path.join(EVID, "replay")
GUARD = "GOOGLE_CCTZ_VERIF"
NCPU = os.cpu_count() or 4

LIB_SOURCES = ["civil_time_detail.cc", "time_zone_fixed.cc", "time_zone_format.cc",
               "time_zone_if.cc", "time_zone_impl.cc", "time_zone_info.cc",
               "time_zone_libc.cc", "time_zone_lookup.cc", "time_zone_posix.cc",
               "zone_info_source.cc"]

VARIANTS = {
    # UBSan in trap mode: every undefined operation raises SIGILL at the faulting call (no
    # per-location de-duplication); drivers turn it into ub=1 on that event via sigsetjmp.
    "asan": ["-O1", "-g", "-fno-omit-frame-pointer", "-fsanitize=address,undefined",
             "-fsanitize-trap=undefined", "-fno-sanitize-recover=all", "-D_GLIBCXX_SANITIZE_VECTOR"],
    "ubsan": ["-O1", "-g", "-fsanitize=undefined", "-fsanitize-trap=undefined"],
    "tsan": ["-O1", "-g", "-fsanitize=thread"],
    # (asserts are exercised by the asan build; here only the outcome under different pre-fills matters)
    "pat": ["-O1", "-DNDEBUG", "-ftrivial-auto-var-init=pattern"],
    "zero": ["-O1", "-DNDEBUG", "-ftrivial-auto-var-init=zero",
             "-enable-trivial-auto-var-init-zero-knowing-it-will-be-removed-from-clang"],
    "plain": ["-O2"],
}


def log(*a):
    print(*a, file=sys.stderr, flush=True)


def tier_and_seed(argv_tier=None):
    tier = argv_tier or os.environ.get("VERIF_TIER") or "quick"
    if tier not in ("quick", "thorough"):
        tier = "quick"
    try:
        seed = int(os.environ.get("VERIF_SEED", "1"))
    except ValueError:
        seed = 1
    return tier, seed


# ---------------------------------------------------------------- builds
def _sha(paths):
    h = hashlib.sha1()
    for p in sorted(paths):
        h.update(p.encode())
        with open(p, "rb") as f:
            h.update(f.read())
    return h.hexdigest()[:16]


def repo_hash():
    files = []
    for d in ("src", "include/cctz"):
        dd = os.path.join(REPO, d)
        for fn in os.listdir(dd):
            if fn.endswith((".cc", ".h")) and not fn.endswith("_test.cc") and \
                    fn not in ("cctz_benchmark.cc", "time_tool.cc"):
                files.append(os.path.join(dd, fn))
    return _sha(files)


def _run(cmd, **kw):
    return subprocess.run(cmd, stdout=subprocess.PIPE, stderr=subprocess.STDOUT, text=True, **kw)


def build_lib(variant, guard=True):
    """Compile the library sources of /repo's working tree with the variant's flags.
    Returns the build dir (contains libcctz.a)."""
    flags = VARIANTS[variant]
    fh = hashlib.sha1(" ".join(flags).encode()).hexdigest()[:6]
    key = "%s-%s-%s%s" % (variant, fh, repo_hash(), "" if guard else "-noguard")
    out = os.path.join(BUILD, key)
    lib = os.path.join(out, "libcctz.a")
    if os.path.exists(lib):
        os.utime(out)
        return out
    # drop stale builds of the same variant (disk hygiene) - but never one that another running check
    # (a different tier, seed or scratch tree) may be using or still building: only directories unused
    # for two hours, and temporary ones only when their process is gone
    if os.path.isdir(BUILD):
        for d in os.listdir(BUILD):
            dp = os.path.join(BUILD, d)
            if not (d.startswith(variant + "-") and d != key and os.path.isdir(dp)):
                continue
            m = re.search(r"\.tmp(\d+)$", d)
            try:
                idle = time.time() - os.path.getmtime(dp)
            except OSError:
                continue
            if (m and not os.path.exists("/proc/" + m.group(1))) or (not m and idle > 7200):
                shutil.rmtree(dp, ignore_errors=True)
    tmp = out + ".tmp%d" % os.getpid()
    os.makedirs(tmp, exist_ok=True)
    base = ["clang++", "-std=c++14", "-Wno-everything", "-I" + os.path.join(REPO, "include"),
            "-I" + os.path.join(REPO, "src"), "-pthread"] + flags
    if guard:
        base.append("-D" + GUARD)

    def cc(src):
        o = os.path.join(tmp, src[:-3] + ".o")
        r = _run(base + ["-c", os.path.join(REPO, "src", src), "-o", o])
        return src, r.returncode, r.stdout, o

    objs = []
    with cf.ThreadPoolExecutor(max_workers=NCPU) as ex:
        for src, rc, outp, o in ex.map(cc, LIB_SOURCES):
            if rc != 0:
                shutil.rmtree(tmp, ignore_errors=True)
                raise BuildError("compile of %s failed (%s):\n%s" % (src, variant, outp))
            objs.append(o)
    r = _run(["ar", "rcs", os.path.join(tmp, "libcctz.a")] + objs)
    if r.returncode != 0:
        raise BuildError(r.stdout)
    if os.path.exists(out):
        shutil.rmtree(tmp, ignore_errors=True)
    else:
        os.rename(tmp, out)
    return out


class BuildError(Exception):
    pass


def build_driver(name, variant, extra_src=(), extra_flags=(), guard=True):
    """Compile harness/<name>.cc against the variant's library build. Returns binary path."""
    libdir = build_lib(variant, guard)
    srcs = [os.path.join(HARNESS, name + ".cc")] + [os.path.join(HARNESS, s) for s in extra_src]
    hdrs = [os.path.join(HARNESS, f) for f in os.listdir(HARNESS) if f.endswith(".h")]
    hk = _sha(srcs + hdrs)
    exe = os.path.join(libdir, "%s-%s" % (name, hk))
    if os.path.exists(exe):
        return exe
    for f in os.listdir(libdir):
        m = re.search(r"\.tmp(\d+)$", f)
        if f.startswith(name + "-") and not (m and os.path.exists("/proc/" + m.group(1))):
            try:
                os.remove(os.path.join(libdir, f))
            except OSError:
                pass
    cmd = ["clang++", "-std=c++14", "-Wno-everything", "-I" + os.path.join(REPO, "include"),
           "-I" + os.path.join(REPO, "src"), "-I" + HARNESS, "-pthread"] + VARIANTS[variant]
    if guard:
        cmd.append("-D" + GUARD)
    cmd += list(extra_flags) + srcs + [os.path.join(libdir, "libcctz.a"), "-o", exe + ".tmp%d" % os.getpid()]
    r = _run(cmd)
    if r.returncode != 0:
        raise BuildError("driver %s (%s) failed:\n%s" % (name, variant, r.stdout))
    os.rename(exe + ".tmp%d" % os.getpid(), exe)
    return exe


def workdir(name):
    """A scratch directory private to this process (checks of different tiers/seeds may run side by side);
    directories left by processes that no longer exist are removed."""
    base = os.path.join(BUILD, "work")
    os.makedirs(base, exist_ok=True)
    for d in os.listdir(base):
        stem, _, pid = d.rpartition(".")
        if (stem == name and pid.isdigit() and not os.path.exists("/proc/" + pid)) or d == name:
            shutil.rmtree(os.path.join(base, d), ignore_errors=True)
    d = os.path.join(base, "%s.%d" % (name, os.getpid()))
    shutil.rmtree(d, ignore_errors=True)
    os.makedirs(d, exist_ok=True)
    return d


# ---------------------------------------------------------------- TLC
TLC_CP = "/opt/veriftools/tla/tla2tools.jar:/opt/veriftools/tla/CommunityModules-deps.jar"
_STATES = re.compile(r"(\d+) states generated, (\d+) distinct states found")
_DEPTH = re.compile(r"depth of the complete state graph search is (\d+)")


class TlcResult:
    def __init__(self, rc, out, wall):
        self.rc, self.out, self.wall = rc, out, wall
        m = None
        for m in _STATES.finditer(out):
            pass
        self.generated = int(m.group(1)) if m else 0
        self.distinct = int(m.group(2)) if m else 0
        d = _DEPTH.search(out)
        self.depth = int(d.group(1)) if d else 0
        self.rejects = [ln for ln in out.splitlines() if re.match(r'<<\s*"REJECT"', ln)]
        self.ok = (rc == 0 and "No error has been found" in out)
        # a specification verdict (invariant / property / postcondition violated) as opposed to
        # an infrastructure failure (parse error, OOM, timeout)
        self.verdict_violation = rc in (10, 12, 13) and (
            "is violated" in out or "Postcondition" in out or "Invariant" in out)
        self.infra_failure = (not self.ok) and (not self.verdict_violation)

    def tail(self, n=40):
        return "\n".join(self.out.splitlines()[-n:])


def tlc(module, cfg, env=None, workers=1, timeout=1800, heap="4g", extra=(), deque=False, tag=None):
    """Run TLC on spec/<module>.tla with config file cfg (absolute or relative to spec/)."""
    tag = "%s.%d" % (tag, os.getpid()) if tag else ("%s-%d-%d" % (module, os.getpid(), int(time.time() * 1000) % 100000000))
    meta = os.path.join(BUILD, "tlc", tag)
    shutil.rmtree(meta, ignore_errors=True)
    os.makedirs(meta, exist_ok=True)
    cfgp = cfg if os.path.isabs(cfg) else os.path.join(SPEC, cfg)
    jopts = ["-XX:+UseSerialGC" if workers == 1 else "-XX:+UseParallelGC", "-Xmx" + heap, "-Xss16m",
             "-XX:TieredStopAtLevel=4", "-XX:CICompilerCount=2"]
    if deque:
        jopts.append("-Dtlc2.tool.queue.IStateQueue=StateDeque")
    cmd = ["timeout", str(timeout), "java"] + jopts + ["-cp", TLC_CP, "tlc2.TLC",
           "-workers", str(workers), "-metadir", meta, "-noGenerateSpecTE", "-config", cfgp] + list(extra) + [module + ".tla"]
    e = dict(os.environ)
    e.pop("JAVA_TOOL_OPTIONS", None)
    if env:
        e.update({k: str(v) for k, v in env.items()})
    t0 = time.time()
    r = subprocess.run(cmd, cwd=SPEC, env=e, stdout=subprocess.PIPE, stderr=subprocess.STDOUT, text=True)
    shutil.rmtree(meta, ignore_errors=True)
    return TlcResult(r.returncode, r.stdout, time.time() - t0)


def write_cfg(path, text):
    with open(path, "w") as f:
        f.write(text)
    return path


def trim_incomplete(path):
    """A driver that died (its exit status is reported by the caller) may leave a half-written last line:
    cut it off so that the events before it are still judged."""
    try:
        with open(path, "rb+") as f:
            data = f.read()
            if data and not data.endswith(b"\n"):
                f.seek(0)
                f.truncate(data.rfind(b"\n") + 1)
    except OSError:
        pass


def validate_shards(module, cfg, shards, env_key="TRACE", jobs=None, timeout=1800, heap="3g", env=None):
    """Validate NDJSON shards in parallel JVMs. Returns list of (shard, TlcResult)."""
    jobs = jobs or max(1, min(len(shards), NCPU - 2))
    for p in shards:
        trim_incomplete(p)

    def one(p):
        ev = dict(env or {})
        ev[env_key] = os.path.abspath(p)
        r = tlc(module, cfg, env=ev, workers=1, timeout=timeout, heap=heap, tag="%s-%s" % (module, os.path.basename(p)))
        if r.infra_failure and r.rc != 124:
            # not a verdict (parse error, OOM, JVM trouble): repeat once before giving up
            log("TLC infrastructure failure on %s (rc %d), retrying once" % (os.path.basename(p), r.rc))
            r = tlc(module, cfg, env=ev, workers=1, timeout=timeout, heap=heap, tag="%s-%s-retry" % (module, os.path.basename(p)))
        return p, r
    with cf.ThreadPoolExecutor(max_workers=jobs) as ex:
        return list(ex.map(one, shards))


def read_ndjson(path):
    with open(path) as f:
        return [json.loads(ln) for ln in f if ln.strip()]


def reject_lines(res):
    """Line numbers (1-based) of rejected trace lines printed by the trace spec."""
    out = []
    for ln in res.rejects:
        m = re.match(r'<<\s*"REJECT", (\d+)', ln)
        if m:
            out.append(int(m.group(1)))
    return out


# ---------------------------------------------------------------- findings / verdicts
def load_known_findings():
    """known_findings.txt: lines `finding: property=<id> key=<k1=v1,k2=v2,...> :: text`
    and `fixed: property=<id> <commit> <what failed>` (fixed lines suppress nothing)."""
    kf = []
    p = os.path.join(ROOT, "known_findings.txt")
    if os.path.exists(p):
        for ln in open(p):
            ln = ln.strip()
            if not ln.startswith("finding:"):
                continue
            m = re.match(r"finding:\s+property=(\S+)\s+key=(\S+)\s*(?:::\s*(.*))?$", ln)
            if m:
                kf.append({"property": m.group(1), "key": m.group(2), "text": m.group(3) or ""})
    return kf


class Verdict:
    """Collects violations for one property run, separating known findings."""

    def __init__(self, pid):
        self.pid = pid
        self.violations = []   # (key, description, replay_obj)
        self.known = []
        self.infra = []
        self._kf = [k for k in load_known_findings() if k["property"] == pid]

    def violation(self, key, desc, replay_obj=None):
        """key: a stable class key for this failure (matched against known_findings)."""
        for k in self._kf:
            if k["key"] == key:
                self.known.append((key, desc))
                return
        self.violations.append((key, desc, replay_obj))

    def infra_failure(self, what):
        self.infra.append(what)
        log("INFRASTRUCTURE FAILURE (not a verdict): " + what)

    def finish(self, evidence):
        os.makedirs(REPLAY, exist_ok=True)
        seen = set()
        for key, desc in self.known:
            if key not in seen:
                seen.add(key)
                print("KNOWN-FINDING: property=%s %s (%s)" % (self.pid, key, desc))
        evidence["violations"] = len(self.violations)
        if self.known:
            evidence.setdefault("assumptions", []).append(
                "known findings observed (listed in known_findings.txt): " +
                ", ".join(sorted(set(k for k, _ in self.known))))
        if self.infra:
            evidence.setdefault("assumptions", []).append(
                "infrastructure failures (parts not validated): " + "; ".join(self.infra[:5]))
        write_evidence(self.pid, evidence)
        if self.violations:
            import collections
            cnt = collections.Counter(k for k, _, _ in self.violations)
            log("violation classes: " + ", ".join("%s x%d" % kv for kv in cnt.most_common(60)))
            n = 0
            shown = set()
            for key, desc, obj in self.violations:
                if key in shown:
                    continue          # one line per class of failure
                shown.add(key)
                n += 1
                path = os.path.join(REPLAY, "%s-%d.json" % (self.pid, n))
                with open(path, "w") as f:
                    json.dump({"property": self.pid, "key": key, "what": desc, "case": obj,
                               "tier": evidence.get("tier", "quick"), "seed": evidence.get("seed", 1),
                               "occurrences": sum(1 for k, _, _ in self.violations if k == key)}, f)
                    f.write("\n")
                print("VIOLATION property=%s replay=%s" % (self.pid, path))
                log("  %s: %s" % (key, desc))
                if n >= 12:
                    break
            sys.stdout.flush()
            return 1
        if self.infra:
            # nothing was refuted, but part of the exploration could not be carried out: say so loudly
            print("INFRASTRUCTURE-FAILURE property=%s %d part(s) not validated: %s" % (self.pid, len(self.infra), self.infra[0][:200].replace("\n", " ")))
            sys.stdout.flush()
            return 2
        return 0


def write_evidence(pid, ev):
    os.makedirs(EVID, exist_ok=True)
    ev.setdefault("property_id", pid)
    ev["wall_s"] = round(float(ev.get("wall_s", 0.0)), 2)
    p = os.path.join(EVID, pid + ".json")
    with open(p + ".tmp", "w") as f:
        json.dump(ev, f, indent=1, sort_keys=True)
        f.write("\n")
    os.replace(p + ".tmp", p)
    # the same record kept per tier (evidence/<id>.json is always the latest run, whichever tier it was)
    bt = os.path.join(EVID, "by_tier")
    os.makedirs(bt, exist_ok=True)
    shutil.copyfile(p, os.path.join(bt, "%s.%s.json" % (pid, ev.get("tier", "quick"))))


def run_driver(exe, args, timeout=900, env=None, cwd=None):
    e = dict(os.environ)
    e.setdefault("ASAN_OPTIONS", "detect_leaks=0:abort_on_error=1:handle_sigill=0:allocator_may_return_null=1")
    e.setdefault("TSAN_OPTIONS", "halt_on_error=0:second_deadlock_stack=1")
    if env:
        e.update({k: str(v) for k, v in env.items()})
    r = subprocess.run(["timeout", str(timeout), exe] + [str(a) for a in args], env=e, cwd=cwd,
                       stdout=subprocess.PIPE, stderr=subprocess.PIPE, text=True, errors="replace")
    return r
