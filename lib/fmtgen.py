"""Format-string generators for C08 / C07 (inputs only)."""
import itertools
import random

INTERNAL = [b"%Y", b"%m", b"%d", b"%e", b"%U", b"%u", b"%W", b"%w", b"%H", b"%M", b"%S", b"%z", b"%Z", b"%s", b"%%",
            b"%:z", b"%::z", b"%:::z", b"%Ez", b"%E*z", b"%E*S", b"%E*f", b"%E4Y", b"%ET", b"%E0S", b"%E1S", b"%E3S", b"%E9S",
            b"%E15S", b"%E16S", b"%E18S", b"%E19S", b"%E1024S", b"%E1025S", b"%E0f", b"%E1f", b"%E6f", b"%E15f", b"%E18f", b"%E300f", b"%E003f"]
DELEGATED = [b"%a", b"%A", b"%b", b"%B", b"%c", b"%C", b"%D", b"%F", b"%g", b"%G", b"%h", b"%I", b"%j", b"%k", b"%l", b"%n", b"%p",
             b"%r", b"%R", b"%t", b"%T", b"%V", b"%x", b"%X", b"%y", b"%Ec", b"%EC", b"%Ex", b"%EX", b"%Ey", b"%EY", b"%Od", b"%OH",
             b"%Om", b"%OS", b"%Oy", b"%P", b"%q", b"%Q", b"%5Y", b"%_d", b"%-m", b"%^a", b"%#Z", b"%010s"]
# the same digit counts spelled differently (leading zeros, many digits) and counts that only look small when narrowed
# NUL bytes as ordinary text between library-rendered specifiers (and around delegated ones, where the answer is open)
# the same specifier family more than once in one format, in both orders (no state may leak from one conversion to the next)
ORDERS = [b"%W %U", b"%U %W", b"%W|%U|%W|%U", b"%u %w %u", b"%d %e %d", b"%E3S %E*S %E1f %E*f %S", b"%z %Ez %:z %z", b"%Z %z %Z", b"%Y %E4Y %Y", b"%H %I %H", b"%s %S %s"]
# single conversions with a GNU field width around the 16x buffer rule (dropped or not - but always the same way)
WIDTHS = [b"%70j", b"%64j", b"%48j", b"%47j", b"%200A", b"[%Y-%m-%d %90j %H:%M]", b"%100j", b"%99d|%Y", b"%63d", b"%64d", b"%^a %-j %_j %#Z", b"%EZ %Oz %Es %-s"]
WIDE = [b"%c" * 9, b"%c" * 11, b"%c," * 11, b"%Ec" * 11, b"%c" * 15, b"%H:%M " + b"%c" * 11 + b" %Z%z", b"%c" * 16 + b"|%Y", b"%x%X" * 12, b"%A%B" * 8, b"%c" * 32]
NULS = [b"a\x00b %Y-%m-%d", b"%Y\x00%m\x00%d", b"[%Ez]\x00[%E3S]\x00[%Z]", b"\x00%H:%M", b"%H\x00", b"\x00", b"%%\x00%%%S", b"%a\x00x%Y", b"%\x00abc", b"%E\x00S"]
SPELLINGS = [b"%E0003S", b"%E00003S", b"%E00015f", b"%E01024f", b"%E01025f", b"%E000000006S", b"%E00000f", b"%E00S", b"%E0000000001024S",
             b"%E0000000001025S", b"%E4294967297S", b"%E4294967302f", b"%E18446744073709551617S", b"%E18446744073709551622f", b"%E65539S",
             b"%E0004Y", b"%E04Y", b"%E00000000000000000000000000000000000003f"]
LIT = [b"", b" ", b"-", b":", b"T", b"abc", b"/", b".", b",", b"%%", b"%%%%", b"\xe9", b"E", b"*", b"Z", b"1", b"\t"]
# a colon run that is not one of %:z %::z %:::z, followed by what would be a cctz extension had it stood behind a bare '%'
COLON_E = [b"%:Ez", b"%:ET", b"%::E*S", b"%:::E3S", b"%:E*f", b"%:E4Y", b"%:E*z", b"%::Ez", b"%:::E*z", b"%a %:ET %H:%M", b"%:E0S|%S", b"%::::z", b"%:E15f",
           b"%:Ez %Ez", b"%Y%:E4Y", b"[%:::E18S]"]
DANGLING = [b"%", b"%E", b"%E*", b"%:", b"%::", b"%:::", b"%E4", b"%E1", b"%E12345", b"%O", b"%E%", b"%:%z", b"%E" + b"9" * 1000 + b"S",
            b"%E" + b"9" * 30, b"%%%", b"%%%%%", b"%E*%Y", b"%:Y", b"%::Y", b"%EY", b"%Ef", b"%ES", b"%E*Y", b"%E4y", b"%E1025f"]
REPO = [b"%Y-%m-%d%ET%H:%M:%E*S%Ez", b"%Y-%m-%d%ET%H:%M:%S%Ez", b"%a, %d %b %E4Y %H:%M:%S %z", b"%d %b %E4Y %H:%M:%S %z",
        b"%Y-%m-%d %H:%M:%S %z", b"%c", b"%F %T", b"%Y-%m-%dT%H:%M:%E3S%Ez", b"%H:%M:%E15S", b"%A %B %e %Y week %U/%W day %u/%w",
        b"%s.%E9f", b"%Z %z %Ez %E*z %:z %::z %:::z", b"%G-W%V-%u", b"%D %R %r", b"100%% %%Y %%%Y", b"%Ec|%EC|%Ex|%EX|%Ey|%EY"]


def formats(seed, n):
    r = random.Random(seed)
    out = list(REPO) + INTERNAL + DELEGATED + DANGLING + COLON_E + NULS + WIDE + WIDTHS + ORDERS + SPELLINGS + [b"x" + t + b"|%S" for t in SPELLINGS]
    toks = INTERNAL + DELEGATED + LIT + DANGLING + SPELLINGS[:6] + COLON_E[:9]
    # all pairs of (internal|delegated|dangling) with a separator class: the cut points of the scanner
    for a, b in itertools.product(INTERNAL[:24] + DELEGATED[:12] + DANGLING[:12], repeat=2):
        if r.random() < (0.25 if n < 20000 else 1.0):
            out.append(a + r.choice([b"", b"", b"x", b"%%", b" "]) + b)
    for _ in range(n):
        k = r.choice([1, 2, 3, 3, 4, 5, 6, 8])
        out.append(b"".join(r.choice(toks) for _ in range(k)))
    for _ in range(n // 8):   # unstructured bytes over a percent-heavy alphabet
        out.append(bytes(r.choice(b"%%%%EO:*zSfYmd4 09aT\x00\xfe\x80") for _ in range(r.randrange(0, 14))))
    seen, uniq = set(), []
    for f in out:
        if f not in seen:
            seen.add(f)
            uniq.append(f)
    return uniq


def lossless(seed, n):
    """Formats that render year, month/day (or week+weekday, or locale names), H, M, full-precision
    seconds and the full-resolution offset - or %s - in random order with random separators."""
    r = random.Random(seed)
    out = [b"%s", b"x%s", b"%Y-%m-%d%ET%H:%M:%E*S%E*z", b"%Y-%m-%dT%H:%M:%S.%E15f%::z"]
    for _ in range(n):
        year = r.choice([b"%Y", b"%Y", b"%E4Y", b"%Y", b"%EY"])
        date = r.choice([[b"%m", b"%d"], [b"%m", b"%e"], [b"%U", b"%w"], [b"%W", b"%u"], [b"%U", b"%u"], [b"%W", b"%w"],
                         [b"%b", b"%d"], [b"%B", b"%e"], [b"%m", b"%d", b"%a"], [b"%h", b"%d", b"%A"],
                         [b"%U", b"%a"], [b"%W", b"%A"], [b"%U", b"%A"], [b"%W", b"%a"]])
        tm = r.choice([[b"%H", b"%M", b"%E*S"], [b"%H", b"%M", b"%S", b"%E*f"], [b"%H", b"%M", b"%E15S"], [b"%H", b"%M", b"%E18S"],
                       [b"%H", b"%M", b"%S", b"%E15f"], [b"%H", b"%M", b"%E16S"]])
        off = r.choice([b"%E*z", b"%::z", b"%:::z", b"%E*z", b"%z", b"%Ez", b"%:z"])
        # whole seconds through %E0S ("like %S") with the full fraction as an item of its own, before or after it
        frac_item = None
        if r.random() < 0.15:
            tm = [b"%H", b"%M", b"%E0S"]
            frac_item = r.choice([b"%E*f", b"%E15f", b"%E*f"])
        # the hour through the 12-hour clock: %I with %p, the marker before or after it, anywhere in the format
        if r.random() < 0.25:
            tm = [b"%I" if x == b"%H" else x for x in tm]
            date = date + [b"%p"] if r.random() < 0.5 else date
            if b"%p" not in date:
                tm = tm + [b"%p"] if r.random() < 0.5 else [b"%p"] + tm
        parts = [year] + date + [off] + ([frac_item] if frac_item else [])
        # redundant %O-modified conversions (handed to the C library) repeating a field the format already carries: they
        # change nothing about the instant, wherever they stand relative to the hour / AM-PM / seconds fields
        if r.random() < 0.35:
            twelve = b"%I" in tm
            extra = [b"%OM", b"%OS", b"%OI" if twelve else b"%OH"]
            if date[0] in (b"%m", b"%b", b"%B", b"%h"):
                extra += [b"%Od", b"%Om"]
            parts = parts + r.sample(extra, r.choice([1, 1, 2]))
        # the time items keep their relative order when seconds and fraction are separate (the fraction must follow)
        r.shuffle(parts)
        pos = r.randrange(len(parts) + 1)
        seps = [b" ", b"-", b"/", b"T", b" | ", b", "]
        items = parts[:pos] + tm + parts[pos:]
        s = b""
        for i, it in enumerate(items):
            if i:
                # a fraction directly follows its seconds with a '.'; numeric fields need a separator
                s += b"." if (it in (b"%E*f", b"%E15f") and items[i - 1] == b"%S") else r.choice(seps)
            s += it
        out.append(s)
    return list(dict.fromkeys(out))
