"""POSIX-TZ sentence generator for C16 (inputs only; the verdict comes from the TLA+ spec)."""
import itertools
import random

ABBR_OK = [b"AAA", b"EST", b"<+05>", b"<-0330>", b"<ABC>", b"LongName", b"a/b", b"A:B", b"<A B>", b"\xe9\xe8\xe7", b"<>"]
ABBR_BAD = [b"AB", b"A", b"", b"A1C", b"<AB", b"AB>", b"A,B", b"A+B", b"A-B", b"<A\x00B>"]
OFF_OK = [b"0", b"5", b"-5", b"+5", b"24", b"5:30", b"-5:30:15", b"12:59:59", b"005", b"24:59:59", b"0:00:00"]
OFF_BAD = [b"", b"25", b"5:60", b"5:30:60", b"-", b"+", b"5:", b"5:3:", b":30", b"99999999999", b"5.5", b"+-5", b"5 "]
DATE_OK = [b"J1", b"J365", b"J60", b"0", b"365", b"59", b"M1.1.0", b"M12.5.6", b"M3.2.0", b"M10.5.0", b"J059", b"M03.02.00"]
DATE_BAD = [b"J0", b"J366", b"366", b"M0.1.0", b"M13.1.0", b"M1.0.0", b"M1.6.0", b"M1.1.7", b"M1.1", b"M1", b"M", b"J", b"",
            b"M1.1.", b"M1..1", b"-1", b"J-1", b"D5", b"M1,1,0"]
TIME_OK = [b"", b"/2", b"/0", b"/-1", b"/167", b"/-167", b"/2:30", b"/26:30:15", b"/+3", b"/24", b"/002"]
TIME_BAD = [b"/", b"/168", b"/-168", b"/2:60", b"/2:00:60", b"/2:", b"/:30", b"/+", b"//2", b"/2/3"]
TRAIL = [b"", b"", b"", b" ", b"\n", b"\x00", b"\x00junk", b",", b"X", b"5", b",M3.2.0", b"/2"]


def sentences(seed, n_random):
    r = random.Random(seed)
    out = []

    def pick(ok, bad, p_bad=0.12):
        return r.choice(bad) if r.random() < p_bad else r.choice(ok)
    # 1. every single component at each of its values, others fixed (exhaustive one-at-a-time)
    base = dict(std=b"EST", so=b"5", dst=b"EDT", do=b"", d1=b"M3.2.0", t1=b"", d2=b"M11.1.0", t2=b"", trail=b"")

    def build(c):
        s = c["std"] + c["so"]
        if c["dst"] is not None:
            s += c["dst"] + c["do"] + b"," + c["d1"] + c["t1"] + b"," + c["d2"] + c["t2"]
        return s + c["trail"]
    for key, vals in (("std", ABBR_OK + ABBR_BAD), ("so", OFF_OK + OFF_BAD), ("dst", ABBR_OK + ABBR_BAD),
                      ("do", OFF_OK + OFF_BAD), ("d1", DATE_OK + DATE_BAD), ("t1", TIME_OK + TIME_BAD),
                      ("d2", DATE_OK + DATE_BAD), ("t2", TIME_OK + TIME_BAD), ("trail", TRAIL)):
        for v in vals:
            c = dict(base)
            c[key] = v
            out.append(build(c))
    # std only
    for a in ABBR_OK + ABBR_BAD:
        for o in OFF_OK + OFF_BAD:
            out.append(a + o)
            out.append(a + o + r.choice(TRAIL))
    # 2. structural near misses: one rule, no rules, dates without commas, extra rule
    for c in (b"EST5EDT", b"EST5EDT4", b"EST5EDT,M3.2.0", b"EST5EDT4,M3.2.0", b"EST5EDT4/3/4", b"EST5EDT,M3.2.0,M11.1.0,M1.1.1",
              b"EST5EDT,,", b"EST5EDT,M3.2.0,", b"EST5EDT,,M11.1.0", b"EST5,M3.2.0,M11.1.0", b"EST5EDT M3.2.0,M11.1.0",
              b"EST5EDTM3.2.0,M11.1.0", b":EST5EDT,M3.2.0,M11.1.0", b":America/New_York", b"", b":", b"5", b"EST", b"<EST>5<EDT>,J1,J2",
              b"EST5EDT,M3.2.0/2,M11.1.0/2", b"EST5EDT,0/0,J365/25", b"EST+5EDT-4,J60/-167,365/167"):
        out.append(c)
    # 2b. the same numbers spelled differently: zero-padded to 10 / 20 digits in every numeric position (values in range),
    # and long digit runs whose value only looks small after narrowing to 8 / 16 / 32 / 64 bits
    import re as _re
    for t in (b"EST5", b"<+1030>-10:30", b"EST5:30:15", b"EST5EDT4:30,M3.2.0/2:30:15,M11.1.6/25", b"EST5EDT,J60/2,J300/-1:30",
              b"EST5EDT,100,300/167", b"EST-14EDT-15,M12.5.0,M1.1.1"):
        nums = list(_re.finditer(rb"\d+", t))
        for m in nums:
            if t[:m.start()].count(b"<") > t[:m.start()].count(b">"):
                continue                      # digits inside a quoted abbreviation are not a number
            for pad in (10, 20):
                out.append(t[:m.start()] + m.group(0).rjust(pad, b"0") + t[m.end():])
            for wrap in (256, 65536, 2 ** 32, 2 ** 64):
                out.append(t[:m.start()] + str(int(m.group(0)) + wrap).encode() + t[m.end():])
    # 2c. every punctuation / special byte as the first, middle and last character of either abbreviation, after each
    # form of offset (a ':' can only start the dst abbreviation when the std offset already has all three fields)
    for ch in b":./;*@_ !#$%&'()=?[]^`{|}~\\\"\t\x7f\x80\xff":
        c = bytes([ch])
        for so in (b"5", b"5:00", b"5:00:00", b"-5:30:15"):
            for dst in (c + b"EDT", b"ED" + c + b"T", b"EDT" + c, c * 3):
                out.append(b"EST" + so + dst + b",M3.2.0,M11.1.0")
                out.append(b"EST" + so + dst)
        for std in (c + b"EST", b"ES" + c + b"T", b"EST" + c, c * 3):
            out.append(std + b"5EDT,M3.2.0,M11.1.0")
    # 2d. quoted abbreviations: any byte but '>' (and NUL) may appear inside <...>, at any length from 0 up
    for inner in (b"", b"A", b"AB", b"+03", b"-0330", b"+", b"-", b",", b"1", b"12345678901234567890", b"<", b"<<A", b"A B", b":::", b"\x80\xff", b"A<B", b"%s", b"/"):
        q = b"<" + inner + b">"
        for rest in (b"5", b"-3:30", b"5EDT,M3.2.0,M11.1.0", b"5" + q + b",M3.2.0,M11.1.0", b"5" + q + b"4,J60,300"):
            out.append(q + rest)
        out.append(b"EST5" + q + b",M3.2.0,M11.1.0")
        out.append(b"<" + inner + b"5")                       # unterminated
        out.append(b"<" + inner + b">>5")                     # one '>' too many
    # 3. random combinations with an occasional bad component
    for _ in range(n_random):
        c = dict(std=pick(ABBR_OK, ABBR_BAD), so=pick(OFF_OK, OFF_BAD), dst=pick(ABBR_OK, ABBR_BAD),
                 do=pick(OFF_OK + [b""] * 6, OFF_BAD, 0.05), d1=pick(DATE_OK, DATE_BAD), t1=pick(TIME_OK, TIME_BAD),
                 d2=pick(DATE_OK, DATE_BAD), t2=pick(TIME_OK, TIME_BAD), trail=r.choice(TRAIL) if r.random() < 0.15 else b"")
        if r.random() < 0.15:
            c["dst"] = None
        out.append(build(c))
    # 4. single-edit mutations of accepted-looking sentences
    good = [s for s in out if b"," in s][:400]
    alphabet = [bytes([b]) for b in b"0123456789+-,./:<>JM AZaz\x00\xff\n"]
    for s in good:
        for _ in range(3):
            i = r.randrange(len(s) + 1)
            k = r.random()
            if k < 0.33 and s:
                out.append(s[:i] + s[i + 1:])
            elif k < 0.66:
                out.append(s[:i] + r.choice(alphabet) + s[i:])
            else:
                out.append(s[:i] + r.choice(alphabet) + s[i + 1:])
    # 5. unstructured random byte strings
    for _ in range(n_random // 4):
        out.append(bytes(r.choice(b"AB5,-+:/.<>JM0123 \x00\xfe") for _ in range(r.randrange(0, 24))))
    seen = set()
    uniq = []
    for s in out:
        if s not in seen:
            seen.add(s)
            uniq.append(s)
    return uniq
